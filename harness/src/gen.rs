//! Input generators: derivation programs over adversarial alphabets, settings, and the
//! bounded-exhaustive universes.

use crate::cfg::Cfg;
use proptest::collection::vec;
use proptest::prelude::*;

pub struct Pool {
    pub name: &'static str,
    pub syms: &'static [&'static str],
}

pub static POOLS: &[Pool] = &[
    Pool { name: "abc", syms: &["a", "b", "c"] },
    Pool {
        name: "cased",
        syms: &[
            "a", "A", "b", "B", "ß", "ẞ", "İ", "i", "ı", "I", "\u{212a}", "k", "K", "σ", "ς", "Σ", "ǅ", "ǆ", "Ǆ",
            "Ꭰ", "ꭰ", "ſ", "s", "S", "é", "É", "\u{1c89}", "\u{1c8a}", "ᾈ", "ᾀ", "1",
        ],
    },
    Pool {
        name: "meta",
        syms: &[
            "(", ")", "[", "]", "{", "}", "+", "*", "-", ".", "?", "|", "^", "$", "\\", "/", "#", " ", "&", "~",
            "<", ">", "!", "\"", "'", "=", ":", ",", "@", "%", "_", "a", "b", "0",
        ],
    },
    Pool {
        name: "marks",
        syms: &[
            "a", "e", "\u{301}", "\u{308}", "\u{200d}", "\u{200c}", "\u{fe0f}", "👩", "💻", "🏻", "🏿", "👍",
            "\u{0d4e}", "\u{0600}", "\u{0903}", "\\", "y", "\u{306}",
        ],
    },
    Pool {
        name: "clusters",
        syms: &["🇩", "🇪", "🇺", "🇸", "ᄀ", "ᅡ", "ᆨ", "가", "각", "\u{1160}", "\u{115f}", "a", "\\", "\u{200d}"],
    },
    Pool {
        name: "space",
        syms: &[
            " ", "\t", "\n", "\r", "\u{b}", "\u{c}", "\u{85}", "\u{a0}", "\u{1680}", "\u{2000}", "\u{2003}",
            "\u{200a}", "\u{2028}", "\u{2029}", "\u{202f}", "\u{205f}", "\u{3000}", "\u{feff}", "\u{200b}", "a",
            "#", "\u{180e}",
        ],
    },
    Pool {
        name: "digits",
        syms: &[
            "0", "1", "9", "٣", "७", "𝟗", "²", "½", "Ⅳ", "a", "_", "-", " ", "é", "ñ", "日", "本", "Z", "\u{203f}",
            "\u{ff10}",
        ],
    },
    Pool {
        name: "sgr",
        syms: &[
            "\u{1b}", "[", "m", "0", ";", "1", "3", "a", "$", ")", "(", "^", "|",
            // whole SGR look-alikes as literal text (the codes grex itself uses, and others)
            "\u{1b}[1;3m", "\u{1b}[0m", "\u{1b}[1;36m", "\u{1b}[104;37m", "\u{1b}[1m", "\u{1b}[38;5;1m", "[0m", "b",
        ],
    },
    Pool {
        name: "boundary",
        syms: &[
            "\u{7f}", "\u{80}", "\u{ff}", "\u{100}", "\u{fff}", "\u{1000}", "\u{ffff}", "\u{10000}", "\u{fffff}",
            "\u{100000}", "\u{10ffff}", "💩", "♥", "a", "\u{e9}", "\u{d7ff}", "\u{e000}", "\u{1f4a9}",
        ],
    },
    Pool {
        name: "backslash",
        syms: &[
            "\\", "d", "w", "s", "D", "W", "S", "n", "t", "u", "{", "}", "1", "🏻", "\u{0d4e}", "\u{301}", "b", "x",
            "v", "f",
        ],
    },
    // characters printed as an ASCII escape (metacharacters; class-convertible letters/digits) directly
    // followed by a non-ASCII, non-mark extender: one grapheme cluster that mixes an escape with
    // other text (F13 and its relatives)
    Pool { name: "metamod", syms: &["(", ".", "🏻", "\u{ff9e}", "a", "1", "d", "\u{e33}", "ท", "*", "🏽"] },
    // lower-case letters that differ as characters (and in UTF-8 length) but fold together under (?i)
    Pool { name: "fold-s", syms: &["s", "ſ", "a", "b"] },
    Pool { name: "fold-sigma", syms: &["σ", "ς", "α", "β"] },
    Pool { name: "fold-misc", syms: &["k", "\u{212a}", "µ", "μ", "β", "ϐ", "a"] },
    // literal text that is spelled like grex's internal class tokens, next to characters that
    // are really converted to those tokens (only meaningful together with class options)
    Pool { name: "lookalike", syms: &["\\d", "1", "\\w", "a", "\\s", " ", "\\D", "-", "\\", "d"] },
    Pool { name: "repeat", syms: &["a", "b", "ab", "aa", "x", "1", "\u{e9}", "💩", " ", "."] },
];

pub const POOL_ANY: usize = 1000;

pub fn pool_index(name: &str) -> usize {
    POOLS.iter().position(|p| p.name == name).expect("pool name")
}

type Word = Vec<u16>;

#[derive(Clone, Debug)]
pub enum Op {
    Fresh(Word),
    PrefixOf(u16, u16),
    Append(u16, Word),
    Prepend(u16, Word),
    Replace(u16, u16, u16),
    Repeat(Word, u8),
    RepeatAfter(u16, Word, u8),
    CaseVariant(u16, u16),
    Duplicate(u16),
    Empty,
    /// ((inner^k1 tail)^k2 outer)^k3 — nested periods
    Nested(Word, u8, Word, u8, Word, u8),
    /// four test cases p·c0·s, p·c1·t, q·c2·t, q·c3·s — equivalent states whose edges are inserted in
    /// different orders once c0..c3 get the same label (class conversion) 
    Cross(Word, Word, Word, Word, [u16; 4]),
}

#[derive(Clone, Debug)]
pub struct Program {
    pub pool: usize,
    pub any: Vec<char>,
    pub sub: Option<[u16; 3]>,
    pub ops: Vec<Op>,
}

fn idx(i: u16, len: usize) -> usize {
    (i as usize * len) >> 16
}

impl Program {
    pub fn pool_name(&self) -> &'static str {
        if self.pool == POOL_ANY {
            "any"
        } else {
            POOLS[self.pool].name
        }
    }
    fn alphabet(&self) -> Vec<String> {
        let full: Vec<String> = if self.pool == POOL_ANY {
            self.any.iter().map(|c| c.to_string()).collect()
        } else {
            POOLS[self.pool].syms.iter().map(|s| s.to_string()).collect()
        };
        match self.sub {
            Some(ix) if full.len() > 3 => {
                let mut v: Vec<String> = ix.iter().map(|&i| full[idx(i, full.len())].clone()).collect();
                v.dedup();
                v
            }
            _ => full,
        }
    }
    /// Interpret the derivation program into a list of test cases (never empty).
    pub fn interpret(&self) -> Vec<String> {
        let alpha = self.alphabet();
        let word = |w: &Word| -> Vec<String> { w.iter().map(|&i| alpha[idx(i, alpha.len())].clone()).collect() };
        let mut tcs: Vec<Vec<String>> = vec![];
        for op in &self.ops {
            let n = tcs.len();
            let new: Vec<String> = match op {
                Op::Fresh(w) => word(w),
                Op::Empty => vec![],
                Op::PrefixOf(i, k) if n > 0 => {
                    let b = &tcs[idx(*i, n)];
                    b[..idx(*k, b.len() + 1)].to_vec()
                }
                Op::Append(i, w) if n > 0 => {
                    let mut b = tcs[idx(*i, n)].clone();
                    b.extend(word(w));
                    b
                }
                Op::Prepend(i, w) if n > 0 => {
                    let mut b = word(w);
                    b.extend(tcs[idx(*i, n)].iter().cloned());
                    b
                }
                Op::Replace(i, pos, sym) if n > 0 => {
                    let mut b = tcs[idx(*i, n)].clone();
                    if !b.is_empty() {
                        let p = idx(*pos, b.len());
                        b[p] = alpha[idx(*sym, alpha.len())].clone();
                    }
                    b
                }
                Op::Repeat(u, k) => {
                    let u = word(u);
                    let mut b = vec![];
                    for _ in 0..*k {
                        b.extend(u.iter().cloned());
                    }
                    b
                }
                Op::RepeatAfter(i, u, k) if n > 0 => {
                    let mut b = tcs[idx(*i, n)].clone();
                    let u = word(u);
                    for _ in 0..*k {
                        b.extend(u.iter().cloned());
                    }
                    b
                }
                Op::CaseVariant(i, mask) if n > 0 => {
                    let b = &tcs[idx(*i, n)];
                    b.iter()
                        .enumerate()
                        .map(|(j, s)| if mask >> (j % 16) & 1 == 1 { flip_case(s) } else { s.clone() })
                        .collect()
                }
                Op::Duplicate(i) if n > 0 => tcs[idx(*i, n)].clone(),
                Op::Cross(..) => vec![],
                Op::Nested(inner, k1, tail, k2, outer, k3) => {
                    let (inner, tail, outer) = (word(inner), word(tail), word(outer));
                    let mut level1 = vec![];
                    for _ in 0..*k1 {
                        level1.extend(inner.iter().cloned());
                    }
                    level1.extend(tail.iter().cloned());
                    let mut level2 = vec![];
                    for _ in 0..*k2 {
                        level2.extend(level1.iter().cloned());
                    }
                    level2.extend(outer.iter().cloned());
                    let mut b = vec![];
                    for _ in 0..*k3 {
                        b.extend(level2.iter().cloned());
                    }
                    b
                }
                // an op that refers to an earlier case when there is none
                Op::PrefixOf(..) | Op::Duplicate(..) | Op::CaseVariant(..) | Op::Replace(..) => vec![],
                Op::Append(_, w) | Op::Prepend(_, w) => word(w),
                Op::RepeatAfter(_, u, k) => {
                    let u = word(u);
                    let mut b = vec![];
                    for _ in 0..*k {
                        b.extend(u.iter().cloned());
                    }
                    b
                }
            };
            if let Op::Cross(p, q, sfx, t, c) = op {
                let (p, q, sfx, t) = (word(p), word(q), word(sfx), word(t));
                let sym = |i: u16| alpha[idx(i, alpha.len())].clone();
                for (pre, ci, suf) in [(&p, c[0], &sfx), (&p, c[1], &t), (&q, c[2], &t), (&q, c[3], &sfx)] {
                    let mut b = pre.clone();
                    b.push(sym(ci));
                    b.extend(suf.iter().cloned());
                    tcs.push(b);
                }
                continue;
            }
            let mut new = new;
            new.truncate(40);
            tcs.push(new);
            if tcs.len() >= 14 {
                break;
            }
        }
        if tcs.is_empty() {
            tcs.push(vec![]);
        }
        tcs.into_iter().map(|v| v.concat()).collect()
    }
}

pub fn flip_case(s: &str) -> String {
    s.chars()
        .map(|c| {
            let mut it: Box<dyn Iterator<Item = char>> = if c.is_lowercase() {
                Box::new(c.to_uppercase())
            } else {
                Box::new(c.to_lowercase())
            };
            let first = it.next().unwrap_or(c);
            if it.next().is_some() {
                c
            } else {
                first
            }
        })
        .collect()
}

fn word_strategy(max: usize) -> impl Strategy<Value = Word> {
    vec(any::<u16>(), 0..=max)
}

fn unit_strategy() -> impl Strategy<Value = Word> {
    vec(any::<u16>(), 1..=3)
}

#[derive(Clone, Copy, Debug)]
pub struct OpWeights {
    pub fresh: u32,
    pub prefix: u32,
    pub affix: u32,
    pub replace: u32,
    pub repeat: u32,
    pub casevar: u32,
    pub dup: u32,
    pub empty: u32,
}

pub const W_DEFAULT: OpWeights =
    OpWeights { fresh: 6, prefix: 3, affix: 6, replace: 3, repeat: 3, casevar: 1, dup: 1, empty: 1 };
pub const W_REPEAT: OpWeights =
    OpWeights { fresh: 3, prefix: 2, affix: 3, replace: 2, repeat: 10, casevar: 1, dup: 1, empty: 1 };
pub const W_PREFIX: OpWeights =
    OpWeights { fresh: 4, prefix: 8, affix: 6, replace: 2, repeat: 2, casevar: 1, dup: 1, empty: 1 };
pub const W_CASE: OpWeights =
    OpWeights { fresh: 6, prefix: 2, affix: 4, replace: 2, repeat: 1, casevar: 8, dup: 1, empty: 1 };

fn op_strategy(w: OpWeights, max_rep: u8, max_word: usize) -> impl Strategy<Value = Op> {
    prop_oneof![
        w.fresh => word_strategy(max_word).prop_map(Op::Fresh),
        w.prefix => (any::<u16>(), any::<u16>()).prop_map(|(i, k)| Op::PrefixOf(i, k)),
        w.affix => (any::<u16>(), word_strategy(3)).prop_map(|(i, w)| Op::Append(i, w)),
        w.affix => (any::<u16>(), word_strategy(3)).prop_map(|(i, w)| Op::Prepend(i, w)),
        w.replace => (any::<u16>(), any::<u16>(), any::<u16>()).prop_map(|(i, p, s)| Op::Replace(i, p, s)),
        w.repeat => (unit_strategy(), 1..=max_rep).prop_map(|(u, k)| Op::Repeat(u, k)),
        w.repeat => (any::<u16>(), unit_strategy(), 1..=max_rep).prop_map(|(i, u, k)| Op::RepeatAfter(i, u, k)),
        w.casevar => (any::<u16>(), any::<u16>()).prop_map(|(i, m)| Op::CaseVariant(i, m)),
        w.dup => any::<u16>().prop_map(Op::Duplicate),
        w.empty => Just(Op::Empty),
        w.repeat / 2 + 1 => (vec(any::<u16>(), 1..=2), 2u8..=3, vec(any::<u16>(), 0..=2), 2u8..=3, vec(any::<u16>(), 0..=1), 1u8..=2)
            .prop_map(|(a, k1, b, k2, c, k3)| Op::Nested(a, k1, b, k2, c, k3)),
        1 => (vec(any::<u16>(), 1..=2), vec(any::<u16>(), 1..=2), vec(any::<u16>(), 1..=2), vec(any::<u16>(), 1..=2), any::<[u16; 4]>())
            .prop_map(|(p, q, s, t, c)| Op::Cross(p, q, s, t, c)),
    ]
}

/// Programs over the named pools (plus 10 % unstructured `any::<char>()` alphabets when
/// `with_any`), `1..=max_ops` derivation steps.
pub fn program_strategy(
    pools: &[&'static str],
    with_any: bool,
    w: OpWeights,
    max_ops: usize,
    max_rep: u8,
) -> BoxedStrategy<Program> {
    program_strategy_sized(pools, with_any, w, 1, max_ops, max_rep, 5)
}

/// As `program_strategy`, with explicit bounds on the number of derivation steps and on the
/// length of fresh words (used by the "large" sub-checks: more and longer test cases).
pub fn program_strategy_sized(
    pools: &[&'static str],
    with_any: bool,
    w: OpWeights,
    min_ops: usize,
    max_ops: usize,
    max_rep: u8,
    max_word: usize,
) -> BoxedStrategy<Program> {
    let ids: Vec<usize> = pools.iter().map(|n| pool_index(n)).collect();
    let pool = if with_any {
        prop_oneof![9 => proptest::sample::select(ids), 1 => Just(POOL_ANY)].boxed()
    } else {
        proptest::sample::select(ids).boxed()
    };
    (
        pool,
        vec(any::<char>(), 6),
        prop_oneof![3 => any::<[u16; 3]>().prop_map(Some), 2 => Just(None)],
        vec(op_strategy(w, max_rep, max_word), min_ops..=max_ops),
    )
        .prop_map(|(pool, any, sub, ops)| Program { pool, any, sub, ops })
        .boxed()
}

pub const ALL_POOLS: &[&str] = &[
    "abc", "cased", "meta", "marks", "clusters", "space", "digits", "sgr", "boundary", "backslash", "repeat", "lookalike", "metamod",
];

/// Settings: every boolean independent; thresholds from a small set including large values.
pub fn cfg_strategy() -> BoxedStrategy<Cfg> {
    let b = |p: f64| proptest::bool::weighted(p);
    let thr = || proptest::sample::select(vec![1u32, 1, 1, 1, 2, 3, 4, 5, 6, 17, 1000]);
    (
        (b(0.17), b(0.12), b(0.17), b(0.12), b(0.17), b(0.12)),
        (b(0.3), b(0.25), b(0.2), b(0.2), b(0.3), b(0.25)),
        (b(0.17), b(0.17), b(0.15)),
        (thr(), thr()),
    )
        .prop_map(|((d, nd, s, ns, w, nw), (r, i, g, e, u, x), (no_s, no_e, c), (mr, ml))| Cfg {
            digits: d,
            non_digits: nd,
            spaces: s,
            non_spaces: ns,
            words: w,
            non_words: nw,
            repetitions: r,
            ignore_case: i,
            capture: g,
            escape: e,
            surrogates: u && e,
            verbose: x,
            no_start: no_s,
            no_end: no_e,
            colour: c,
            min_rep: mr,
            min_len: ml,
        })
        .boxed()
}

// ---------------------------------------------------------------------------------------------
// Bounded-exhaustive universes
// ---------------------------------------------------------------------------------------------

pub struct Universe {
    pub name: &'static str,
    pub words: Vec<String>,
}

fn words_upto(alpha: &[&str], k: usize) -> Vec<String> {
    let mut out = vec![String::new()];
    let mut frontier = vec![String::new()];
    for _ in 0..k {
        let mut next = vec![];
        for w in &frontier {
            for a in alpha {
                next.push(format!("{}{}", w, a));
            }
        }
        out.extend(next.iter().cloned());
        frontier = next;
    }
    out
}

impl Universe {
    pub fn u1() -> Universe {
        Universe { name: "U1={a,b,c}^<=2", words: words_upto(&["a", "b", "c"], 2) }
    }
    pub fn u2() -> Universe {
        Universe { name: "U2={a,b}^<=3", words: words_upto(&["a", "b"], 3) }
    }
    pub fn u3a() -> Universe {
        Universe { name: "U3a={a^0..a^7}", words: (0..=7).map(|k| "a".repeat(k)).collect() }
    }
    pub fn u3b() -> Universe {
        let mut words: Vec<String> = (0..=4).map(|k| "ab".repeat(k)).collect();
        for k in 1..=3 {
            words.push(format!("a{}", "ab".repeat(k)));
        }
        for k in 1..=2 {
            words.push(format!("{}a", "ab".repeat(k)));
        }
        Universe { name: "U3b=(ab)-families", words }
    }
    /// prefix x repeat-count families: {x,y}·a^{1..4} and {x,y}·a^{2,3}·b (12 words, 4,095 subsets).
    /// F18 (a range edge merged with single-count edges during minimisation) needs five such words.
    pub fn rep_families() -> Universe {
        let mut words = vec![];
        for p in ["x", "y"] {
            for k in 1..=4 {
                words.push(format!("{}{}", p, "a".repeat(k)));
            }
            for k in 2..=3 {
                words.push(format!("{}{}b", p, "a".repeat(k)));
            }
        }
        Universe { name: "Urep={x,y}a^k[b]", words }
    }
    /// every word over `alpha` of length 1..=k (used as SINGLE test cases)
    pub fn words(alpha: &[&str], k: usize) -> Vec<String> {
        let mut w = words_upto(alpha, k);
        w.retain(|x| !x.is_empty());
        w
    }
    pub fn u4() -> Universe {
        Universe { name: "U4={a,b}^<=4", words: words_upto(&["a", "b"], 4) }
    }
    /// Same subset structure with letters substituted by other symbols.
    pub fn lifted(&self, name: &'static str, subst: &[(&str, &str)]) -> Universe {
        Universe {
            name,
            words: self
                .words
                .iter()
                .map(|w| {
                    w.chars()
                        .map(|c| {
                            let s = c.to_string();
                            subst.iter().find(|(a, _)| *a == s).map(|(_, b)| b.to_string()).unwrap_or(s)
                        })
                        .collect()
                })
                .collect(),
        }
    }
    pub fn subset_count(&self) -> u64 {
        (1u64 << self.words.len()) - 1
    }
    /// The `mask`-th non-empty subset (mask in 1..=subset_count).
    pub fn subset(&self, mask: u64) -> Vec<String> {
        (0..self.words.len()).filter(|i| mask >> i & 1 == 1).map(|i| self.words[i].clone()).collect()
    }
}

/// All subsets of size 1..=max_k of a word list, addressed by rank (combinatorial number system).
pub struct SmallSubsets {
    pub words: Vec<String>,
    pub max_k: usize,
    binom: Vec<Vec<u64>>,
    offsets: Vec<u64>,
}

impl SmallSubsets {
    pub fn new(words: Vec<String>, max_k: usize) -> SmallSubsets {
        let n = words.len();
        let mut binom = vec![vec![0u64; max_k + 1]; n + 1];
        for i in 0..=n {
            binom[i][0] = 1;
            for k in 1..=max_k.min(i) {
                binom[i][k] = binom[i - 1][k - 1] + if k <= i - 1 { binom[i - 1][k] } else { 0 };
            }
        }
        let mut offsets = vec![0u64];
        for k in 1..=max_k {
            let last = *offsets.last().unwrap();
            offsets.push(last + binom[n][k]);
        }
        SmallSubsets { words, max_k, binom, offsets }
    }
    /// {a,b,c}^{1..=3}: 39 words
    pub fn abc3(max_k: usize) -> SmallSubsets {
        let mut w = words_upto(&["a", "b", "c"], 3);
        w.retain(|x| !x.is_empty());
        SmallSubsets::new(w, max_k)
    }
    pub fn count(&self) -> u64 {
        *self.offsets.last().unwrap()
    }
    pub fn subset(&self, rank: u64) -> Vec<String> {
        let k = (1..=self.max_k).find(|&k| rank < self.offsets[k]).unwrap_or(self.max_k);
        let mut r = rank - self.offsets[k - 1];
        // unrank the r-th k-combination in colexicographic order
        let mut out = vec![];
        let mut kk = k;
        let mut n = self.words.len();
        while kk > 0 {
            // largest c < n with C(c, kk) <= r
            let mut c = kk - 1;
            while c + 1 < n && self.binom[c + 1][kk] <= r {
                c += 1;
            }
            r -= self.binom[c][kk];
            out.push(self.words[c].clone());
            n = c;
            kk -= 1;
        }
        out.reverse();
        out
    }
}

pub const LIFTS: &[(&str, &[(&str, &str)])] = &[
    ("lift:meta", &[("a", "\\"), ("b", "."), ("c", "|")]),
    ("lift:flags", &[("a", "🇩🇪"), ("b", "\\"), ("c", "é")]),
    ("lift:marks", &[("a", "e"), ("b", "\u{301}"), ("c", "👩")]),
    ("lift:digit", &[("a", "1"), ("b", "٣"), ("c", " ")]),
    ("lift:space", &[("a", " "), ("b", "\u{2003}"), ("c", "#")]),
    ("lift:case", &[("a", "A"), ("b", "a"), ("c", "ß")]),
];
