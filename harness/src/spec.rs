//! Specification languages computed from the inputs and the documentation only, and the shared
//! `judge()` classifier that decides `L(pattern) = spec` and attributes any difference to a
//! pipeline stage.

use crate::cfg::{build_with_stages, Cfg, Stages};
use crate::lang::*;
use grex::verif_hooks::{Automaton, Label};
use regex_syntax::hir::Hir;
use std::sync::OnceLock;

pub struct Classes {
    pub d: CharSet,
    pub w: CharSet,
    pub s: CharSet,
    pub nd: CharSet,
    pub nw: CharSet,
    pub ns: CharSet,
}

pub fn classes() -> &'static Classes {
    static C: OnceLock<Classes> = OnceLock::new();
    C.get_or_init(|| Classes {
        d: perl_class(r"\d"),
        w: perl_class(r"\w"),
        s: perl_class(r"\s"),
        nd: perl_class(r"\D"),
        nw: perl_class(r"\W"),
        ns: perl_class(r"\S"),
    })
}

/// Which class token (if any) the documentation says code point `c` is converted to.
pub fn documented_class(c: char, cfg: &Cfg) -> Option<char> {
    let k = classes();
    if cfg.digits && set_contains(&k.d, c) {
        Some('d')
    } else if cfg.words && set_contains(&k.w, c) {
        Some('w')
    } else if cfg.spaces && set_contains(&k.s, c) {
        Some('s')
    } else if cfg.non_digits && !set_contains(&k.d, c) {
        Some('D')
    } else if cfg.non_words && !set_contains(&k.w, c) {
        Some('W')
    } else if cfg.non_spaces && !set_contains(&k.s, c) {
        Some('S')
    } else {
        None
    }
}

pub fn class_set(token: char) -> &'static CharSet {
    let k = classes();
    match token {
        'd' => &k.d,
        'w' => &k.w,
        's' => &k.s,
        'D' => &k.nd,
        'W' => &k.nw,
        'S' => &k.ns,
        _ => panic!("class token"),
    }
}

/// The set of code points allowed at the position of `c`.
pub fn spec_set(c: char, cfg: &Cfg) -> CharSet {
    let set = match documented_class(c, cfg) {
        Some(t) => class_set(t).clone(),
        None => single(c),
    };
    if cfg.ignore_case {
        fold(&set)
    } else {
        set
    }
}

/// The specification language of a test-case list under `cfg`: a finite set of sequences of
/// character sets. Only the language-changing options (classes, case) matter.
pub fn spec_seqs(tcs: &[String], cfg: &Cfg) -> Vec<Vec<CharSet>> {
    let mut cache: std::collections::HashMap<char, CharSet> = std::collections::HashMap::new();
    tcs.iter()
        .map(|t| {
            t.chars()
                .map(|c| cache.entry(c).or_insert_with(|| spec_set(c, cfg)).clone())
                .collect()
        })
        .collect()
}

// ---------------------------------------------------------------------------------------------
// Stage languages from hook snapshots
// ---------------------------------------------------------------------------------------------

/// Tokenise the text of a label into character sets. With a class option on, `\` followed by one
/// of dDsSwW is a class token. Returns None if the reading would be ambiguous.
pub fn tokenise(text: &str, cfg: &Cfg) -> Option<Vec<CharSet>> {
    let v: Vec<char> = text.chars().collect();
    let mut out = vec![];
    let mut i = 0;
    while i < v.len() {
        if cfg.classes() && v[i] == '\\' && i + 1 < v.len() && "dDsSwW".contains(v[i + 1]) {
            out.push(class_set(v[i + 1]).clone());
            i += 2;
            continue;
        }
        out.push(single(v[i]));
        i += 1;
    }
    if cfg.ignore_case {
        out = out.iter().map(fold).collect();
    }
    Some(out)
}

pub fn label_unit(l: &Label, cfg: &Cfg) -> Vec<CharSet> {
    let mut unit = vec![];
    for entry in &l.chars {
        unit.extend(tokenise(entry, cfg).unwrap());
    }
    unit
}

pub fn automaton_nfa(a: &Automaton, cfg: &Cfg, drop_start_final: bool) -> Nfa {
    let edges: Vec<_> = a
        .edges
        .iter()
        .map(|(f, t, l)| (*f, *t, label_unit(l, cfg), l.min, l.max))
        .collect();
    let finals: Vec<usize> = a
        .finals
        .iter()
        .copied()
        .filter(|&f| !(drop_start_final && f == a.start))
        .collect();
    automaton_to_nfa(a.state_count, a.start, &finals, &edges)
}

pub fn clusters_nfa(cs: &[Vec<Label>], cfg: &Cfg) -> Nfa {
    let mut edges = vec![];
    let mut n = 1usize;
    let mut finals = vec![];
    for c in cs {
        let mut cur = 0;
        for l in c {
            edges.push((cur, n, label_unit(l, cfg), l.min, l.max));
            cur = n;
            n += 1;
        }
        finals.push(cur);
    }
    automaton_to_nfa(n, 0, &finals, &edges)
}

// ---------------------------------------------------------------------------------------------
// judge()
// ---------------------------------------------------------------------------------------------

#[derive(Clone, Debug, PartialEq, Eq)]
pub enum Verdict {
    /// L(pattern) = spec, confirmed by the sampling cross-check on the real engine.
    Equal,
    /// L(pattern) != spec, but the difference is completely explained by these known-finding
    /// signatures (ids), each verified mechanistically on this very case.
    Explained { ids: Vec<&'static str>, witness: String, over: bool },
    /// A confirmed, unexplained difference.
    Different { witness: String, over: bool, chain: String },
    /// The pattern is not accepted by the regex crate.
    Invalid(String),
    /// The oracle could not decide (limits) or contradicted itself; never a violation.
    Inconclusive(String),
}

pub struct Judged {
    pub verdict: Verdict,
    pub has_start: bool,
    pub has_end: bool,
    pub body: Option<Hir>,
}

/// Strings near the spec language and near the pattern, used to cross-check the symbolic verdict
/// on the real engine.
pub fn near_misses(tcs: &[String], cfg: &Cfg, cap: usize) -> Vec<String> {
    let mut out: Vec<String> = vec![];
    let mut alphabet: Vec<char> = tcs.iter().flat_map(|t| t.chars()).collect();
    alphabet.sort_unstable();
    alphabet.dedup();
    alphabet.truncate(6);
    for extra in ['a', 'A', '0', ' ', '\u{e9}', '\u{10400}'] {
        if !alphabet.contains(&extra) && alphabet.len() < 9 {
            alphabet.push(extra);
        }
    }
    out.push(String::new());
    'outer: for (ti, t) in tcs.iter().enumerate() {
        let cs: Vec<char> = t.chars().collect();
        // prefixes and suffixes
        if !cs.is_empty() {
            out.push(cs[..cs.len() - 1].iter().collect());
            out.push(cs[1..].iter().collect());
        }
        // one more / one less of the last char
        if let Some(&l) = cs.last() {
            let mut s = t.clone();
            s.push(l);
            out.push(s);
        }
        for (i, &c) in cs.iter().enumerate().take(4) {
            // replace by an alphabet char
            let r = alphabet[(i + ti) % alphabet.len()];
            let mut v = cs.clone();
            v[i] = r;
            out.push(v.iter().collect());
            // duplicate
            let mut v = cs.clone();
            v.insert(i, c);
            out.push(v.iter().collect());
            // another member / a non-member of the documented class
            if let Some(tok) = documented_class(c, cfg) {
                if let Some(m) = other_member(class_set(tok), c) {
                    let mut v = cs.clone();
                    v[i] = m;
                    out.push(v.iter().collect());
                }
            }
            if out.len() >= cap {
                break 'outer;
            }
        }
        // cross-over with the next test case
        let u: Vec<char> = tcs[(ti + 1) % tcs.len()].chars().collect();
        let k = cs.len() / 2;
        let mut v: Vec<char> = cs[..k].to_vec();
        v.extend(u[u.len() / 2..].iter());
        out.push(v.iter().collect());
        if out.len() >= cap {
            break;
        }
    }
    out.sort();
    out.dedup();
    out
}

/// Decide `L(pattern) = spec(tcs, cfg)`. `pattern` must be in regex-crate syntax (strip colour /
/// re-pair surrogates first). `stages` are the hook snapshots of the build that produced it.
pub fn judge(tcs: &[String], cfg: &Cfg, pattern: &str, stages: Option<&Stages>) -> Judged {
    let hir = match parse(pattern) {
        Ok(h) => h,
        Err(e) => {
            // large but valid patterns are retried with raised limits by the callers that
            // generate them; here an error is an error
            return Judged { verdict: Verdict::Invalid(e), has_start: false, has_end: false, body: None };
        }
    };
    let (has_start, has_end, body) = strip_anchors(&hir);
    let mk = |verdict| Judged { verdict, has_start, has_end, body: Some(body.clone()) };
    let pat_nfa = match hir_to_nfa(&body) {
        Ok(n) => n,
        Err(LangError::Unsupported(s)) => return mk(Verdict::Inconclusive(format!("hir: {}", s))),
    };
    let seqs = spec_seqs(tcs, cfg);
    let spec_nfa = seqs_to_nfa(&seqs);
    let diff = match compare_default(&pat_nfa, &spec_nfa) {
        Ok(d) => d,
        Err(s) => return mk(Verdict::Inconclusive(format!("compare: {}", s))),
    };
    // Compiling the engine for Unicode classes such as \w costs milliseconds; the sampling
    // cross-check of an "equal" verdict is a guard on the comparator, not the oracle itself, so
    // with class conversion it runs on a deterministic quarter of the cases (always otherwise).
    if diff == Diff::Equal && cfg.classes() {
        let mut h: u64 = 0xcbf29ce484222325;
        for b in pattern.bytes() {
            h = (h ^ b as u64).wrapping_mul(0x100000001b3);
        }
        if h % 4 != 0 {
            return mk(Verdict::Equal);
        }
    }
    let matcher = match FullMatcher::new(&body) {
        Ok(m) => m,
        Err(e) => return mk(Verdict::Inconclusive(format!("engine: {}", e))),
    };
    let (witness, over) = match diff {
        Diff::Equal => {
            // sampling cross-check of an "equal" verdict on the real engine
            for t in tcs {
                if !matcher.is_full_match(t) {
                    return mk(Verdict::Inconclusive(format!(
                        "ORACLE-INCONSISTENCY: comparator says equal but engine rejects test case {:?}",
                        t
                    )));
                }
            }
            for w in near_misses(tcs, cfg, 24) {
                if matcher.is_full_match(&w) != seqs_contain(&seqs, &w) {
                    return mk(Verdict::Inconclusive(format!(
                        "ORACLE-INCONSISTENCY: comparator says equal but engine and spec differ on {:?}",
                        w
                    )));
                }
            }
            return mk(Verdict::Equal);
        }
        Diff::OnlyLeft(w) => (w, true),
        Diff::OnlyRight(w) => (w, false),
    };
    // confirmation rule: the real engine and the direct membership test must disagree on w
    let engine = matcher.is_full_match(&witness);
    let spec_has = seqs_contain(&seqs, &witness);
    if engine != over || spec_has == over {
        return mk(Verdict::Inconclusive(format!(
            "ORACLE-INCONSISTENCY: comparator witness {:?} (over={}) not confirmed: engine={} spec={}",
            witness, over, engine, spec_has
        )));
    }
    // attribute the difference to a stage
    let owned;
    let st = match stages {
        Some(s) => s,
        None => match build_with_stages(tcs, cfg) {
            Ok((_, s)) => {
                owned = s;
                &owned
            }
            Err(_) => {
                return mk(Verdict::Different { witness, over, chain: "no stages (panic)".into() })
            }
        },
    };
    let (ids, chain) = explain(&pat_nfa, &spec_nfa, st, cfg);
    match ids {
        Some(ids) => mk(Verdict::Explained { ids, witness, over }),
        None => mk(Verdict::Different { witness, over, chain }),
    }
}

fn rel(a: &Nfa, b: &Nfa) -> char {
    match compare_default(a, b) {
        Ok(Diff::Equal) => '=',
        Ok(Diff::OnlyLeft(_)) => '>',
        Ok(Diff::OnlyRight(_)) => '<',
        Err(_) => '?',
    }
}

fn subset(a: &Nfa, b: &Nfa) -> bool {
    // L(a) ⊆ L(b): no word only in a. compare() returns the shortest difference, which may be
    // on either side, so test inclusion through the union: L(a ∪ b) = L(b).
    let u = union_nfa(a, b);
    rel(&u, b) == '='
}

pub fn union_nfa(a: &Nfa, b: &Nfa) -> Nfa {
    let mut n = Nfa::default();
    let s = n.new_state();
    let acc = n.new_state();
    n.start = s;
    n.accept = acc;
    for src in [a, b] {
        let off = n.state_count();
        for _ in 0..src.state_count() {
            n.new_state();
        }
        for (i, e) in src.eps.iter().enumerate() {
            for &t in e {
                n.eps[off + i].push(off + t);
            }
        }
        for (i, tr) in src.trans.iter().enumerate() {
            for &(set, t) in tr {
                let id = n.set_id(src.sets[set].clone());
                n.trans[off + i].push((id, off + t));
            }
        }
        n.eps[s].push(off + src.start);
        n.eps[off + src.accept].push(acc);
    }
    n
}

/// Known-finding signatures. Returns the ids of the signatures that together explain the whole
/// difference, or None plus a description of the chain.
fn explain(pat: &Nfa, spec: &Nfa, st: &Stages, cfg: &Cfg) -> (Option<Vec<&'static str>>, String) {
    if st.test_cases.is_empty() && st.clusters.is_empty() {
        return (None, "no stage snapshots".into());
    }
    let cl = clusters_nfa(&st.clusters, cfg);
    let trie = automaton_nfa(&st.trie, cfg, false);
    let min = automaton_nfa(&st.minimized, cfg, false);
    let l1 = rel(spec, &cl);
    let l2 = rel(&cl, &trie);
    let l3 = rel(&trie, &min);
    let pm = rel(pat, &min);
    let pt = rel(pat, &trie);
    let pc = rel(pat, &cl);
    let chain = format!(
        "spec{}clusters{}trie{}minimized; pattern{}minimized pattern{}trie pattern{}clusters",
        l1, l2, l3, pm, pt, pc
    );
    let mut ids: Vec<&'static str> = vec![];
    if l1 != '=' {
        return (None, chain);
    }
    // clusters -> trie
    let mut merge = false;
    if l2 != '=' {
        let ranged = st.trie.edges.iter().any(|e| e.2.min < e.2.max);
        if cfg.repetitions && ranged && subset(&cl, &trie) && trie_matches_merge_model(st, cfg) {
            merge = true;
        } else {
            return (None, chain);
        }
    }
    // which stage does the pattern denote?
    if pm == '=' {
        // trie -> minimized
        if l3 != '=' {
            let start_final_trie = st.trie.finals.contains(&st.trie.start);
            let start_final_min = st.minimized.finals.contains(&st.minimized.start);
            let trie_wo_eps = automaton_nfa(&st.trie, cfg, true);
            if start_final_trie && !start_final_min && rel(&trie_wo_eps, &min) == '=' {
                ids.push("KF-empty");
            } else {
                return (None, chain);
            }
        }
        if merge {
            ids.push("KF-merge");
        }
    } else if pt == '=' {
        if merge {
            ids.push("KF-merge");
        }
    } else if pc == '=' {
        // last-resort alternation of the clusters: faithful to the clusters
    } else {
        return (None, chain);
    }
    if ids.is_empty() {
        // the pattern equals a stage language and all links are equal, yet pattern != spec:
        // impossible unless the comparator is inconsistent; report as unexplained
        return (None, chain);
    }
    (Some(ids), chain)
}

// ---------------------------------------------------------------------------------------------
// Reference model of the listed finding KF-merge
// ---------------------------------------------------------------------------------------------

/// The trie that grex's documented-by-observation insertion rule produces: walking a cluster from
/// the root, an outgoing edge with the same text (the same list of graphemes) is reused if its upper count equals the new
/// grapheme's, and is widened to `min(..)..=max(..)` if its upper count is exactly one less;
/// edges are examined from the most recently added to the oldest (petgraph's adjacency order).
/// KF-merge is accepted only if the real trie denotes exactly this model's language, so a
/// different (even larger) over-match at trie insertion is still reported.
pub fn model_merge_trie(clusters: &[Vec<Label>]) -> Automaton {
    struct E {
        text: Vec<String>,
        min: u32,
        max: u32,
        to: usize,
        label: Label,
    }
    let mut edges: Vec<Vec<E>> = vec![vec![]];
    let mut finals: Vec<usize> = vec![];
    for c in clusters {
        let mut cur = 0usize;
        for g in c {
            let text = g.chars.clone();
            let mut next = None;
            for e in edges[cur].iter_mut().rev() {
                if e.text != text {
                    continue;
                }
                if e.max + 1 == g.max {
                    e.min = e.min.min(g.min);
                    e.max = e.max.max(g.max);
                    next = Some(e.to);
                    break;
                } else if e.max == g.max {
                    next = Some(e.to);
                    break;
                }
            }
            cur = match next {
                Some(n) => n,
                None => {
                    let n = edges.len();
                    edges.push(vec![]);
                    edges[cur].push(E { text, min: g.min, max: g.max, to: n, label: g.clone() });
                    n
                }
            };
        }
        if !finals.contains(&cur) {
            finals.push(cur);
        }
    }
    let mut out = Automaton { state_count: edges.len(), start: 0, finals, edges: vec![] };
    for (from, es) in edges.iter().enumerate() {
        for e in es {
            let mut l = e.label.clone();
            l.min = e.min;
            l.max = e.max;
            l.nested = vec![];
            out.edges.push((from, e.to, l));
        }
    }
    out
}

/// Does the real trie denote the language of the KF-merge reference model?
pub fn trie_matches_merge_model(st: &Stages, cfg: &Cfg) -> bool {
    let model = model_merge_trie(&st.clusters);
    let a = automaton_nfa(&model, cfg, false);
    let b = automaton_nfa(&st.trie, cfg, false);
    matches!(compare_default(&a, &b), Ok(Diff::Equal))
}
