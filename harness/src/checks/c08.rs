//! C08 Anchor options: only requested anchors; search returns the whole test case.

use super::common::*;
use super::Check;
use crate::astx::census;
use crate::cfg::{build, build_with_stages, Case, Cfg};
use crate::gen::*;
use crate::runner::{Ctx, Stats, Tier};
use crate::spec::{judge, Verdict};
use proptest::prelude::*;
use serde_json::json;

pub const CHECK: Check = Check {
    id: "C08",
    run,
    case_fn,
    rule: "cases = (test-case list, settings with the start and/or end anchor disabled (and the fully anchored build as reference), optional -x -i -g -e, classes, -r). Three oracles: (a) the regex AST begins with ^ iff the start anchor is not disabled and ends with $ iff the end anchor is not disabled; (b) L(body with the anchor option) = L(body of the anchored build) (pattern vs pattern, symbolic); (c) for every test case t, Regex::find(t) spans 0..len(t). Non-trivial = some test case is a proper prefix of another, or two share their first code point and differ in length. Distinct = hash of (test cases, settings).",
    assumptions: &[
        "leftmost-first search semantics are those of regex-automata 0.4.7's PikeVM (Regex::find of the pinned regex 1.10.6 has a reverse-suffix bug and is only recorded)",
        "differences caused by the listed findings KF-empty / KF-merge on either side of the differential are tolerated only on their exact stage signatures",
    ],
};

fn nontrivial(tcs: &[String]) -> bool {
    for a in tcs {
        for b in tcs {
            if a != b && a.chars().count() != b.chars().count() {
                if b.starts_with(a.as_str()) {
                    return true;
                }
                if let (Some(x), Some(y)) = (a.chars().next(), b.chars().next()) {
                    if x == y {
                        return true;
                    }
                }
            }
        }
    }
    false
}

pub fn case_fn(_sub: &str, case: &Case, stats: &mut Stats) -> Result<(), String> {
    let cfg = &case.cfg;
    if !cfg.regex_crate() {
        return Ok(());
    }
    stats.eval();
    if nontrivial(&case.tcs) && (cfg.no_start || cfg.no_end) {
        stats.nontrivial(case.key());
    }
    stats.class(match (cfg.no_start, cfg.no_end) {
        (false, false) => "anchored",
        (true, false) => "no-start",
        (false, true) => "no-end",
        (true, true) => "no-anchors",
    });
    let (p, stages) = build_with_stages(&case.tcs, cfg).map_err(build_err)?;
    stats.sample(|| json!({"tcs": case.tcs, "cfg": cfg.tag(), "pattern": p}));
    // (a) anchors present exactly when not disabled
    let cen = census(&p).map_err(|e| format!("pattern {:?} does not parse: {}", p, e.lines().last().unwrap_or("")))?;
    if cen.starts_with_caret == cfg.no_start {
        return Err(format!("pattern {:?}: start anchor {} although it is {}", p, if cen.starts_with_caret { "present" } else { "absent" }, if cfg.no_start { "disabled" } else { "not disabled" }));
    }
    if cen.ends_with_dollar == cfg.no_end {
        return Err(format!("pattern {:?}: end anchor {} although it is {}", p, if cen.ends_with_dollar { "present" } else { "absent" }, if cfg.no_end { "disabled" } else { "not disabled" }));
    }
    let expected_assertions = (!cfg.no_start) as usize + (!cfg.no_end) as usize;
    if cen.assertions != expected_assertions {
        return Err(format!("pattern {:?} contains {} anchors/assertions, expected {}", p, cen.assertions, expected_assertions));
    }
    if !cfg.verbose {
        let t = p.strip_prefix("(?i)").unwrap_or(&p);
        if t.starts_with('^') == cfg.no_start {
            return Err(format!("pattern {:?}: textual ^ does not agree with the start-anchor option", p));
        }
    }
    if !cfg.no_start && !cfg.no_end {
        return Ok(());
    }
    // (b) differential against the anchored build
    let mut anchored = cfg.clone();
    anchored.no_start = false;
    anchored.no_end = false;
    let p_a = build(&case.tcs, &anchored).map_err(build_err)?;
    match pattern_diff(&p, &p_a) {
        Ok(None) => {}
        Ok(Some((w, only_opt))) => {
            stats.confirm();
            let j1 = judge(&case.tcs, cfg, &p, Some(&stages));
            let j2 = judge(&case.tcs, &anchored, &p_a, None);
            let ok = |v: &Verdict, st: &mut Stats| -> Result<bool, String> {
                match v {
                    Verdict::Equal => Ok(true),
                    Verdict::Explained { ids, .. } => {
                        accept_explained("C08", ids, case, &p, st)?;
                        Ok(true)
                    }
                    _ => Ok(false),
                }
            };
            if !(ok(&j1.verdict, stats)? && ok(&j2.verdict, stats)?) {
                return Err(format!(
                    "disabling anchors changed the body's language: {:?} vs anchored {:?} differ on {:?} (accepted only by the {})",
                    p, p_a, w, if only_opt { "anchor-option build" } else { "anchored build" }
                ));
            }
        }
        Err(e) if e.starts_with("invalid:") => return Err(format!("pattern {:?} is rejected by the regex crate", p)),
        Err(e) => stats.inconclusive(&e, || json!({"tcs": case.tcs, "cfg": cfg.tag(), "pattern": p})),
    }
    // (c) search spans the whole test case. Leftmost-first semantics are taken from regex-automata's
    // PikeVM (the reference implementation of the regex crate's semantics). `Regex::find` itself is
    // consulted too, but only for the record: regex 1.10.6 / regex-automata 0.4.7 has a
    // reverse-suffix optimisation bug (`(?:\\w\\wbb|b)` on "aabb" finds 2..3; fixed upstream in
    // later releases), which is not grex's to answer for.
    let vm = regex_automata::nfa::thompson::pikevm::PikeVM::new(&p).map_err(|e| format!("pattern {:?} does not compile: {}", p, e))?;
    let mut cache = vm.create_cache();
    let re = match crate::lang::compile_regex(&p) {
        Ok(r) => r,
        Err(e) if e.starts_with("RESOURCE") => {
            stats.inconclusive("pattern too big for the engine even with raised limits", || json!({"tcs": case.tcs, "cfg": cfg.tag()}));
            return Ok(());
        }
        Err(e) => return Err(format!("pattern {:?} does not compile: {}", p, e)),
    };
    for t in &case.tcs {
        let m = vm.find(&mut cache, t.as_str()).map(|m| (m.start(), m.end()));
        let m_meta = re.find(t).map(|m| (m.start(), m.end()));
        if m != m_meta {
            stats.class("engine-bug: Regex::find disagrees with PikeVM (not counted against grex)");
        }
        if m != Some((0, t.len())) {
            // the only tolerated cause: the listed KF-empty lost "" (then nothing can match "")
            if t.is_empty() {
                let j = judge(&case.tcs, cfg, &p, Some(&stages));
                let ids: Vec<&'static str> = match &j.verdict {
                    Verdict::Explained { ids, .. } => ids.clone(),
                    _ => vec![],
                };
                if ids.contains(&"KF-empty") {
                    // re-verify: the pattern's language indeed lacks "" (so no search could span it)
                    accept_explained("C08", &["KF-empty"], case, &p, stats)?;
                    continue;
                }
            }
            return Err(format!(
                "searching test case {:?} with {:?} yields {:?}, not the whole test case",
                t, p, m
            ));
        }
    }
    Ok(())
}

fn fix(mut c: Cfg) -> Cfg {
    c.colour = false;
    c.surrogates = false;
    c
}

fn fix_large(c: Cfg) -> Cfg {
    let mut c = fix(c);
    if !c.no_start && !c.no_end {
        c.no_end = true;
    }
    c
}

fn anchor_cfgs(base: &Cfg) -> Vec<Cfg> {
    let mut v = vec![];
    for (s, e) in [(true, false), (false, true), (true, true)] {
        let mut c = base.clone();
        c.no_start = s;
        c.no_end = e;
        v.push(c);
    }
    v
}

fn run(ctx: &mut Ctx) {
    let root = crate::root();
    let reg: Vec<Case> = regress_cases(&root, "C08").into_iter().map(|(_, c)| c).collect();
    ctx.fixed("regress", &reg, &case_fn);

    let mut bases = vec![Cfg::default()];
    let mut r = Cfg::default();
    r.repetitions = true;
    bases.push(r);
    if ctx.tier == Tier::Thorough {
        for f in [7usize, 11, 8] {
            let mut c = Cfg::default();
            *c.flag_mut(f) = true;
            bases.push(c);
        }
    }
    let cfgs: Vec<Cfg> = bases.iter().flat_map(anchor_cfgs).collect();
    let nc = cfgs.len() as u64;
    let u1 = Universe::u1();
    ctx.exhaustive("U1 x anchors", u1.subset_count() * nc, &|i| Case::new(u1.subset(i / nc + 1), cfgs[(i % nc) as usize].clone()), &case_fn);
    let u2 = Universe::u2();
    let c2: Vec<Cfg> = match ctx.tier {
        Tier::Quick => anchor_cfgs(&Cfg::default()),
        Tier::Thorough => cfgs.clone(),
    };
    let n2 = c2.len() as u64;
    ctx.exhaustive("U2 x anchors", u2.subset_count() * n2, &|i| Case::new(u2.subset(i / n2 + 1), c2[(i % n2) as usize].clone()), &case_fn);
    let lifts: Vec<usize> = match ctx.tier {
        Tier::Quick => vec![(ctx.seed % 3) as usize + 1],
        Tier::Thorough => vec![0, 1, 2, 3, 4, 5],
    };
    for li in lifts {
        let (name, subst) = LIFTS[li];
        let u = u1.lifted(name, subst);
        let c3 = anchor_cfgs(&Cfg::default());
        ctx.exhaustive(&format!("U1-{} x anchors", name), u.subset_count() * 3, &|i| Case::new(u.subset(i / 3 + 1), c3[(i % 3) as usize].clone()), &case_fn);
    }

    // case-insensitive + disabled end anchor: letters that lower-case differently but fold together
    // (σ/ς, s/ſ, K/k/KELVIN) make the self-check and the final (?i) pattern disagree if either is
    // handled case-sensitively
    let total_c = ctx.tier.pick(12_000, 200_000);
    let strat_c = move || {
        (case_strategy(&["cased", "fold-s", "fold-sigma", "fold-misc", "abc"], false, W_PREFIX, 7, 3, fix), 0u8..4, any::<bool>())
            .prop_map(|(mut c, a, x)| {
                c.cfg.ignore_case = true;
                c.cfg.verbose = x;
                c.cfg.no_end = true;
                c.cfg.no_start = a == 0;
                c
            })
            .boxed()
    };
    ctx.generated("gen-case", &strat_c, total_c, &|s, c, st| {
        count_pool(c, st);
        case_fn(s, c, st)
    });
    // Greek words: final sigma lower-cases to ς, medial to σ, and (?i) folds them together
    let greek: Vec<Vec<&str>> = vec![
        vec!["ΟΔΟΣ", "ΟΔΟΣ ΑΘΗΝΑΣ", "ΟΔΟΣΗΜΑ"],
        vec!["ΣΑΣ", "ΣΑΣΑ", "ΣΑ"],
        vec!["ΑΣ", "ΑΣΑΣ", "ασ", "ας"],
        vec!["Sſ", "SſS", "ſ", "s"],
    ];
    let mut gcases = vec![];
    for g in &greek {
        for (x, ns) in [(false, false), (true, false), (false, true), (true, true)] {
            let mut cfg = Cfg::default();
            cfg.ignore_case = true;
            cfg.verbose = x;
            cfg.no_end = true;
            cfg.no_start = ns;
            gcases.push(Case::new(g.iter().map(|s| s.to_string()).collect(), cfg));
        }
    }
    ctx.fixed("sigma-families", &gcases, &case_fn);
    // long class-converted test cases: the internal self-check cannot compile its expression
    let mut big = vec![];
    for n in [300usize, 700] {
        for flags in [vec![0usize, 4], vec![4], vec![2, 5]] {
            for ns in [false, true] {
                let mut cfg = Cfg::default();
                for f in &flags {
                    *cfg.flag_mut(*f) = true;
                }
                cfg.no_end = true;
                cfg.no_start = ns;
                big.push(Case::new(vec!["a".into(), "1b".into(), format!("a{}!", "xy".repeat(n / 2))], cfg.clone()));
                big.push(Case::new(vec!["ab".into(), format!("ab{}", "c".repeat(n)), "abd".into()], cfg));
            }
        }
    }
    ctx.fixed("large-fixed", &big, &case_fn);

    let total = ctx.tier.pick(30_000, 600_000);
    let max_ops = ctx.tier.pick(6, 10);
    let strat = move || {
        (case_strategy(ALL_POOLS, true, W_PREFIX, max_ops, 5, fix), 0u8..8)
            .prop_map(|(mut c, a)| {
                // 1/8 anchored reference builds, the rest with at least one anchor disabled
                let (s, e) = match a {
                    0 => (false, false),
                    1 | 2 => (true, false),
                    3 | 4 | 5 => (false, true),
                    _ => (true, true),
                };
                c.cfg.no_start = s;
                c.cfg.no_end = e;
                c
            })
            .boxed()
    };
    ctx.generated("gen", &strat, total, &|s, c, st| {
        count_pool(c, st);
        case_fn(s, c, st)
    });
    let total_large = ctx.tier.pick(4000, 100000);
    let strat_large = move || case_strategy_large(ALL_POOLS, W_PREFIX, fix_large);
    ctx.generated("gen-large", &strat_large, total_large, &|s, c, st| {
        count_pool(c, st);
        case_fn(s, c, st)
    });
    if ctx.tier == crate::runner::Tier::Thorough {
        ctx.fuzz_campaign("fuzz_lang", 8000);
    }
}
