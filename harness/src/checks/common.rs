//! Helpers shared by the per-property checks.

use crate::cfg::{Case, Cfg, Stages};
use crate::known;
use crate::runner::Stats;
use crate::spec::{judge, Judged, Verdict};
use serde_json::json;

/// Load the regression corpus of a property: /verif/replays/regress/<prop>-*.json
pub fn regress_cases(root: &str, prop: &str) -> Vec<(String, Case)> {
    let dir = format!("{}/replays/regress", root);
    let mut out = vec![];
    if std::env::var("GV_SKIP_REGRESS").is_ok() {
        // sensitivity experiments only: see whether the search itself (not the corpus) finds a change
        return out;
    }
    let mut names: Vec<_> = match std::fs::read_dir(&dir) {
        Ok(rd) => rd.filter_map(|e| e.ok()).map(|e| e.path()).collect(),
        Err(_) => vec![],
    };
    names.sort();
    for p in names {
        let name = p.file_name().unwrap().to_string_lossy().to_string();
        if !name.starts_with(prop) || !name.ends_with(".json") {
            continue;
        }
        let v: serde_json::Value = match std::fs::read_to_string(&p).ok().and_then(|s| serde_json::from_str(&s).ok()) {
            Some(v) => v,
            None => {
                eprintln!("gv: unreadable regression file {}", p.display());
                std::process::exit(2);
            }
        };
        let sub = v["sub"].as_str().unwrap_or("").to_string();
        let case: Case = serde_json::from_value(v["case"].clone()).unwrap_or_else(|e| {
            eprintln!("gv: bad case in {}: {}", p.display(), e);
            std::process::exit(2);
        });
        out.push((sub, case));
    }
    out
}

/// An `Explained` verdict passes only if every signature id is listed for this property.
pub fn accept_explained(prop: &str, ids: &[&'static str], case: &Case, pattern: &str, stats: &mut Stats) -> Result<(), String> {
    for id in ids {
        if !known::allows(prop, id) {
            return Err(format!(
                "language differs from the specification; the difference matches the signature of {} which is not a listed known finding for {} (pattern {:?})",
                id, prop, pattern
            ));
        }
    }
    for id in ids {
        stats.known(id, || json!({"tcs": case.tcs, "cfg": case.cfg.tag(), "pattern": pattern}));
    }
    Ok(())
}

/// Outcome of the shared language judgement, with known findings accepted and everything else
/// turned into an error message. Returns Ok(Some(judged)) when a verdict was reached (Equal or
/// accepted-known), Ok(None) when inconclusive (counted), Err on violation.
pub fn judge_case(
    prop: &str,
    case: &Case,
    spec_cfg: &Cfg,
    pattern: &str,
    stages: Option<&Stages>,
    stats: &mut Stats,
) -> Result<Option<Judged>, String> {
    let j = judge(&case.tcs, spec_cfg, pattern, stages);
    match &j.verdict {
        Verdict::Equal => Ok(Some(j)),
        Verdict::Explained { ids, .. } => {
            stats.confirm();
            accept_explained(prop, ids, case, pattern, stats)?;
            Ok(Some(j))
        }
        Verdict::Different { witness, over, chain } => {
            stats.confirm();
            Err(format!(
                "pattern {:?} {} {:?} (confirmed on the regex engine); stage chain: {}",
                pattern,
                if *over { "accepts the non-member" } else { "rejects the member" },
                witness,
                chain
            ))
        }
        Verdict::Invalid(e) => Err(format!("pattern {:?} is rejected by the regex crate: {}", pattern, e.lines().last().unwrap_or(""))),
        Verdict::Inconclusive(why) => {
            stats.inconclusive(why, || json!({"tcs": case.tcs, "cfg": case.cfg.tag(), "pattern": pattern}));
            Ok(None)
        }
    }
}

pub fn has_relation(tcs: &[String]) -> bool {
    // >= 2 distinct test cases related by prefix / suffix / epsilon
    for (i, a) in tcs.iter().enumerate() {
        for b in tcs.iter().skip(i + 1) {
            if a == b {
                continue;
            }
            if a.is_empty() || b.is_empty() {
                return true;
            }
            let (ac, bc): (Vec<char>, Vec<char>) = (a.chars().collect(), b.chars().collect());
            if ac[0] == bc[0] || ac[ac.len() - 1] == bc[bc.len() - 1] {
                return true;
            }
        }
    }
    false
}

pub fn has_multi_cp_cluster(tcs: &[String]) -> bool {
    use unicode_segmentation::UnicodeSegmentation;
    tcs.iter().any(|t| t.graphemes(true).any(|g| g.chars().count() > 1))
}

pub fn has_meta(tcs: &[String]) -> bool {
    tcs.iter().any(|t| t.chars().any(|c| "()[]{}+*-.?|^$\\#".contains(c)))
}

pub fn distinct_count(tcs: &[String]) -> usize {
    let mut v: Vec<&String> = tcs.iter().collect();
    v.sort();
    v.dedup();
    v.len()
}

use crate::gen::{cfg_strategy, program_strategy, OpWeights};
use proptest::prelude::*;

/// Strategy for (derivation program, settings) -> Case; `fix` forces / forbids flags.
pub fn case_strategy(
    pools: &'static [&'static str],
    with_any: bool,
    w: OpWeights,
    max_ops: usize,
    max_rep: u8,
    fix: fn(Cfg) -> Cfg,
) -> BoxedStrategy<Case> {
    (program_strategy(pools, with_any, w, max_ops, max_rep), cfg_strategy())
        .prop_map(move |(p, cfg)| {
            let mut c = Case::new(p.interpret(), fix(cfg));
            c.extra = json!({"pool": p.pool_name()});
            c
        })
        .boxed()
}

pub fn count_pool(c: &Case, st: &mut Stats) {
    if let Some(p) = c.extra["pool"].as_str() {
        st.class(&format!("pool={}", p));
    }
}

pub fn build_err(m: String) -> String {
    format!("build() panicked: {}", m)
}

/// Compare the languages of two patterns (bodies, anchors stripped) directly.
/// Ok(None) = equal; Ok(Some((witness, only_in_first))) = differ; Err = cannot decide.
pub fn pattern_diff(p1: &str, p2: &str) -> Result<Option<(String, bool)>, String> {
    use crate::lang::*;
    let h1 = parse(p1).map_err(|e| format!("invalid:{}", e))?;
    let h2 = parse(p2).map_err(|e| format!("invalid:{}", e))?;
    let (_, _, b1) = strip_anchors(&h1);
    let (_, _, b2) = strip_anchors(&h2);
    let n1 = hir_to_nfa(&b1).map_err(|e| format!("{:?}", e))?;
    let n2 = hir_to_nfa(&b2).map_err(|e| format!("{:?}", e))?;
    match compare_default(&n1, &n2)? {
        Diff::Equal => Ok(None),
        Diff::OnlyLeft(w) => {
            let (m1, m2) = (FullMatcher::new(&b1)?, FullMatcher::new(&b2)?);
            if m1.is_full_match(&w) && !m2.is_full_match(&w) {
                Ok(Some((w, true)))
            } else {
                Err(format!("ORACLE-INCONSISTENCY: witness {:?} not confirmed by the engine", w))
            }
        }
        Diff::OnlyRight(w) => {
            let (m1, m2) = (FullMatcher::new(&b1)?, FullMatcher::new(&b2)?);
            if !m1.is_full_match(&w) && m2.is_full_match(&w) {
                Ok(Some((w, false)))
            } else {
                Err(format!("ORACLE-INCONSISTENCY: witness {:?} not confirmed by the engine", w))
            }
        }
    }
}

/// Larger inputs: 5..=14 derivation steps, fresh words up to 9 symbols.
pub fn case_strategy_large(pools: &'static [&'static str], w: OpWeights, fix: fn(Cfg) -> Cfg) -> BoxedStrategy<Case> {
    (crate::gen::program_strategy_sized(pools, true, w, 5, 14, 6, 9), cfg_strategy())
        .prop_map(move |(p, cfg)| {
            let mut c = Case::new(p.interpret(), fix(cfg));
            c.extra = json!({"pool": p.pool_name(), "size": "large"});
            c
        })
        .boxed()
}

/// Wide sets of short words: 6..=12 test cases of length 1..=3 (sometimes 4) over a 4..=6 letter
/// alphabet. Many alternatives meet in the same automaton position, which is what character-class
/// building and alternation flattening need to go wrong (round-5 seeds needed >= 7 such test cases).
pub fn wide_short_strategy(fix: fn(Cfg) -> Cfg, default_cfg: bool) -> BoxedStrategy<Case> {
    use proptest::collection::vec;
    let word = vec(0u8..6, 1..=3usize);
    let long = vec(0u8..6, 4..=4usize);
    (
        4u8..=6,
        vec(prop_oneof![9 => word, 1 => long], 6..=12),
        proptest::sample::select(vec!["abcdef", "bcde x", "a1b2c3", "xyzABC"]),
        cfg_strategy(),
    )
        .prop_map(move |(k, ws, alpha, cfg)| {
            let letters: Vec<char> = alpha.chars().collect();
            let tcs: Vec<String> = ws.iter().map(|w| w.iter().map(|&i| letters[(i % k) as usize]).collect()).collect();
            let mut c = Case::new(tcs, if default_cfg { Cfg::default() } else { fix(cfg) });
            c.extra = json!({"pool": "wide-short"});
            c
        })
        .boxed()
}

/// "Class families": an optional common prefix, several one-letter continuations (which grex merges
/// into a character class, possibly inside an optional part) and a few longer continuations that
/// start with some of the same letters and share a suffix. This is the structure in which class
/// building, optional parts and suffix factoring interact.
pub fn class_family_strategy(default_cfg: bool, fix: fn(Cfg) -> Cfg) -> BoxedStrategy<Case> {
    use proptest::collection::vec;
    (
        proptest::sample::select(vec!["", "", "x", "b"]),
        any::<bool>(),
        1u8..32,
        vec((0u8..5, vec(0u8..5, 0..=2usize), proptest::sample::select(vec!["b", "", "cb", "a"])), 1..=4),
        cfg_strategy(),
    )
        .prop_map(move |(p, with_prefix, singles, longs, cfg)| {
            let alpha = ['a', 'b', 'c', 'd', 'e'];
            let mut tcs: Vec<String> = vec![];
            if with_prefix && !p.is_empty() {
                tcs.push(p.to_string());
            }
            for (i, l) in alpha.iter().enumerate() {
                if singles >> i & 1 == 1 {
                    tcs.push(format!("{}{}", p, l));
                }
            }
            for (first, mid, suf) in &longs {
                let m: String = mid.iter().map(|&i| alpha[i as usize]).collect();
                tcs.push(format!("{}{}{}{}", p, alpha[*first as usize], m, suf));
            }
            let mut c = Case::new(tcs, if default_cfg { Cfg::default() } else { fix(cfg) });
            c.extra = json!({"pool": "class-family"});
            c
        })
        .boxed()
}
