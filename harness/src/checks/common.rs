//! Helpers shared by the per-property checks.

use crate::cfg::{Case, Cfg, Stages};
use crate::known;
use crate::runner::Stats;
use crate::spec::{judge, Judged, Verdict};
use serde_json::json;

/// Load the regression corpus of a property: /verif/replays/regress/<prop>-*.json
pub fn regress_cases(root: &str, prop: &str) -> Vec<(String, Case)> {
    let dir = format!("{}/replays/regress", root);
    let mut out = vec![];
    let mut names: Vec<_> = match std::fs::read_dir(&dir) {
        Ok(rd) => rd.filter_map(|e| e.ok()).map(|e| e.path()).collect(),
        Err(_) => vec![],
    };
    names.sort();
    for p in names {
        let name = p.file_name().unwrap().to_string_lossy().to_string();
        if !name.starts_with(prop) || !name.ends_with(".json") {
            continue;
        }
        let v: serde_json::Value = match std::fs::read_to_string(&p).ok().and_then(|s| serde_json::from_str(&s).ok()) {
            Some(v) => v,
            None => {
                eprintln!("gv: unreadable regression file {}", p.display());
                std::process::exit(2);
            }
        };
        let sub = v["sub"].as_str().unwrap_or("").to_string();
        let case: Case = serde_json::from_value(v["case"].clone()).unwrap_or_else(|e| {
            eprintln!("gv: bad case in {}: {}", p.display(), e);
            std::process::exit(2);
        });
        out.push((sub, case));
    }
    out
}

/// An `Explained` verdict passes only if every signature id is listed for this property.
pub fn accept_explained(prop: &str, ids: &[&'static str], case: &Case, pattern: &str, stats: &mut Stats) -> Result<(), String> {
    for id in ids {
        if !known::allows(prop, id) {
            return Err(format!(
                "language differs from the specification; the difference matches the signature of {} which is not a listed known finding for {} (pattern {:?})",
                id, prop, pattern
            ));
        }
    }
    for id in ids {
        stats.known(id, || json!({"tcs": case.tcs, "cfg": case.cfg.tag(), "pattern": pattern}));
    }
    Ok(())
}

/// Outcome of the shared language judgement, with known findings accepted and everything else
/// turned into an error message. Returns Ok(Some(judged)) when a verdict was reached (Equal or
/// accepted-known), Ok(None) when inconclusive (counted), Err on violation.
pub fn judge_case(
    prop: &str,
    case: &Case,
    spec_cfg: &Cfg,
    pattern: &str,
    stages: Option<&Stages>,
    stats: &mut Stats,
) -> Result<Option<Judged>, String> {
    let j = judge(&case.tcs, spec_cfg, pattern, stages);
    match &j.verdict {
        Verdict::Equal => Ok(Some(j)),
        Verdict::Explained { ids, .. } => {
            stats.confirm();
            accept_explained(prop, ids, case, pattern, stats)?;
            Ok(Some(j))
        }
        Verdict::Different { witness, over, chain } => {
            stats.confirm();
            Err(format!(
                "pattern {:?} {} {:?} (confirmed on the regex engine); stage chain: {}",
                pattern,
                if *over { "accepts the non-member" } else { "rejects the member" },
                witness,
                chain
            ))
        }
        Verdict::Invalid(e) => Err(format!("pattern {:?} is rejected by the regex crate: {}", pattern, e.lines().last().unwrap_or(""))),
        Verdict::Inconclusive(why) => {
            stats.inconclusive(why, || json!({"tcs": case.tcs, "cfg": case.cfg.tag(), "pattern": pattern}));
            Ok(None)
        }
    }
}

pub fn has_relation(tcs: &[String]) -> bool {
    // >= 2 distinct test cases related by prefix / suffix / epsilon
    for (i, a) in tcs.iter().enumerate() {
        for b in tcs.iter().skip(i + 1) {
            if a == b {
                continue;
            }
            if a.is_empty() || b.is_empty() {
                return true;
            }
            let (ac, bc): (Vec<char>, Vec<char>) = (a.chars().collect(), b.chars().collect());
            if ac[0] == bc[0] || ac[ac.len() - 1] == bc[bc.len() - 1] {
                return true;
            }
        }
    }
    false
}

pub fn has_multi_cp_cluster(tcs: &[String]) -> bool {
    use unicode_segmentation::UnicodeSegmentation;
    tcs.iter().any(|t| t.graphemes(true).any(|g| g.chars().count() > 1))
}

pub fn has_meta(tcs: &[String]) -> bool {
    tcs.iter().any(|t| t.chars().any(|c| "()[]{}+*-.?|^$\\#".contains(c)))
}

pub fn distinct_count(tcs: &[String]) -> usize {
    let mut v: Vec<&String> = tcs.iter().collect();
    v.sort();
    v.dedup();
    v.len()
}
