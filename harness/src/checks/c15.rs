//! C15 Syntax highlighting only adds colour codes.

use super::common::*;
use super::Check;
use crate::astx::strip_sgr;
use crate::cfg::{build, Case, Cfg};
use crate::gen::*;
use crate::runner::{Ctx, Stats, Tier};
use serde_json::json;

pub const CHECK: Check = Check {
    id: "C15",
    run,
    case_fn,
    rule: "cases = (test-case list incl. ESC, '[', 'm', digits and ';' so literal text can resemble an SGR sequence; every other setting free, incl. verbose, anchors, escape/surrogates). Oracle: removing ESC [ digits/; m sequences from the highlighted build gives exactly the plain build (single left-to-right pass; note that a plain build may itself contain ESC followed by a character class such as [0m], which is literal text, so nothing is asserted about the plain build). Non-trivial = at least 2 other flags or verbose, and the output has a group, class, alternation or quantifier. Distinct = hash of (test cases, settings).",
    assumptions: &["SGR sequence = ESC '[' [0-9;]* 'm'"],
};

pub fn case_fn(_sub: &str, case: &Case, stats: &mut Stats) -> Result<(), String> {
    let mut plain = case.cfg.clone();
    plain.colour = false;
    let mut col = plain.clone();
    col.colour = true;
    stats.eval();
    let p_plain = build(&case.tcs, &plain).map_err(build_err)?;
    let p_col = build(&case.tcs, &col).map_err(build_err)?;
    let structured = ["(", "[", "|", "{", "?", "*"].iter().any(|s| p_plain.contains(s));
    if (plain.flag_count() >= 2 || plain.verbose) && structured {
        stats.nontrivial(case.key());
    }
    stats.class(if plain.verbose { "verbose" } else { "non-verbose" });
    stats.sample(|| json!({"tcs": case.tcs, "cfg": col.tag(), "plain": p_plain, "coloured": p_col}));
    let stripped = strip_sgr(&p_col);
    if stripped != p_plain {
        return Err(format!(
            "[{}] stripping colour codes from {:?} gives {:?}, the plain build is {:?}",
            col.tag(), p_col, stripped, p_plain
        ));
    }
    Ok(())
}

fn fix(mut c: Cfg) -> Cfg {
    if !c.escape {
        c.surrogates = false;
    }
    c
}

fn run(ctx: &mut Ctx) {
    let root = crate::root();
    let reg: Vec<Case> = regress_cases(&root, "C15").into_iter().map(|(_, c)| c).collect();
    ctx.fixed("regress", &reg, &case_fn);

    // full lattice of the 14 other flags on fixed inputs
    let inputs: Vec<Vec<String>> = vec![
        vec!["1$".into()],
        vec!["a".into(), "ab".into(), "(b)".into(), "\u{1b}[1m".into()],
        vec!["aaa".into(), "ababab".into(), "x 1".into(), "💩".into()],
    ];
    let ni = ctx.tier.pick(2u64, 3);
    ctx.exhaustive("lattice-2^14", 16384 * ni, &|i| Case::new(inputs[(i / 16384) as usize].clone(), Cfg::from_mask((i % 16384) as u32)), &case_fn);
    let u = Universe::u1().lifted("lift:sgr", &[("a", "\u{1b}"), ("b", "["), ("c", "1m")]);
    let mut vx = Cfg::default();
    vx.verbose = true;
    ctx.exhaustive("U1-sgr x {plain,verbose}", u.subset_count() * 2, &|i| Case::new(u.subset(i / 2 + 1), if i % 2 == 0 { Cfg::default() } else { vx.clone() }), &case_fn);

    // literal text that is a complete SGR sequence, with the end anchor disabled (the self-check
    // strips colour codes from the expression and must not strip literal text)
    let u2 = Universe::u1().lifted("lift:sgr-token", &[("a", "\u{1b}[1;3m"), ("b", "a"), ("c", "\u{1b}[0m")]);
    let acfgs: Vec<Cfg> = [(false, false, false), (false, true, false), (true, true, false), (false, true, true)]
        .iter()
        .map(|&(s, e, x)| {
            let mut c = Cfg::default();
            c.no_start = s;
            c.no_end = e;
            c.verbose = x;
            c
        })
        .collect();
    let na = acfgs.len() as u64;
    ctx.exhaustive("U1-sgr-token x anchors", u2.subset_count() * na, &|i| Case::new(u2.subset(i / na + 1), acfgs[(i % na) as usize].clone()), &case_fn);

    let total = ctx.tier.pick(40_000, 600_000);
    let max_ops = ctx.tier.pick(5, 10);
    let strat = move || case_strategy(&["sgr", "sgr", "meta", "digits", "abc", "repeat", "space", "boundary", "marks", "cased"], true, W_DEFAULT, max_ops, 5, fix);
    ctx.generated("gen", &strat, total, &|s, c, st| {
        count_pool(c, st);
        st.class(&format!("flags={}", c.cfg.flag_count().min(7)));
        case_fn(s, c, st)
    });
    let _ = Tier::Quick;
    if ctx.tier == crate::runner::Tier::Thorough {
        ctx.fuzz_campaign("fuzz_build", 10000);
    }
}
