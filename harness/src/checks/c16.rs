//! C16 Every pipeline stage preserves the language; minimisation is minimal.

use super::common::*;
use super::Check;
use crate::cfg::{build_with_stages, Case, Cfg};
use crate::gen::*;
use crate::known;
use crate::lang::*;
use crate::runner::{Ctx, Stats, Tier};
use crate::spec::*;
use grex::verif_hooks::{Automaton, Label};
use serde_json::json;
use std::collections::{BTreeMap, HashMap};

pub const CHECK: Check = Check {
    id: "C16",
    run,
    case_fn,
    rule: "cases = (test-case list, settings among classes, -i, -r with thresholds, -g; presentation options off so that the stage texts are directly readable). The grex_verif hooks record, during the real build(), the converted clusters, the trie, the minimised automaton and the expression. Oracles, link by link (symbolic language equality): spec = L(clusters) = L(trie) = L(minimised) = L(expression) = L(pattern); a label's nested-repetition view expands to its flat text; with -r off the minimised automaton is deterministic over opaque labels and has exactly as many states as an independent Moore partition refinement of the trie. Non-trivial = the minimiser merged states and there are at least 2 distinct test cases. Distinct = hash of (test cases, settings).",
    assumptions: &[
        "labels are tokenised per cluster entry: with a class option on, a backslash followed by one of dDsSwW is a class token, otherwise text is literal",
        "the two listed findings are accepted only on their exact link: KF-merge at clusters->trie (with -r, superset, ranged edge), KF-empty at trie->minimised (start final lost, nothing else)",
    ],
};

fn expand_nested(l: &Label) -> String {
    // flat text of a label's nested-repetition view
    let mut s = String::new();
    for n in &l.nested {
        let unit = if n.nested.is_empty() { n.chars.join("") } else { expand_nested(n) };
        if n.min != n.max {
            return String::from("\u{0}range-in-nested");
        }
        for _ in 0..n.max {
            s.push_str(&unit);
        }
    }
    s
}

fn all_labels(st: &crate::cfg::Stages) -> Vec<&Label> {
    let mut v: Vec<&Label> = st.clusters.iter().flatten().collect();
    v.extend(st.trie.edges.iter().map(|e| &e.2));
    v.extend(st.minimized.edges.iter().map(|e| &e.2));
    v
}

/// Number of Myhill–Nerode classes of a trie (partial DFA over opaque labels, every state useful).
fn moore_classes(a: &Automaton) -> usize {
    let n = a.state_count;
    let mut out: Vec<Vec<(String, usize)>> = vec![vec![]; n];
    for (f, t, l) in &a.edges {
        out[*f].push((format!("{}\u{1}{}\u{1}{}", l.chars.join("\u{2}"), l.min, l.max), *t));
    }
    let mut class: Vec<usize> = (0..n).map(|s| a.finals.contains(&s) as usize).collect();
    loop {
        let mut sigs: BTreeMap<(usize, Vec<(String, usize)>), usize> = BTreeMap::new();
        let mut next = vec![0usize; n];
        for s in 0..n {
            let mut sig: Vec<(String, usize)> = out[s].iter().map(|(l, t)| (l.clone(), class[*t])).collect();
            sig.sort();
            let k = (class[s], sig);
            let id = sigs.len();
            next[s] = *sigs.entry(k).or_insert(id);
        }
        let changed = {
            let mut a: Vec<usize> = class.clone();
            a.sort_unstable();
            a.dedup();
            sigs.len() != a.len()
        };
        class = next;
        if !changed {
            return sigs.len();
        }
    }
}

pub fn case_fn(_sub: &str, case: &Case, stats: &mut Stats) -> Result<(), String> {
    let cfg = &case.cfg;
    if cfg.verbose || cfg.colour || cfg.escape || cfg.surrogates {
        return Ok(());
    }
    stats.eval();
    let (pattern, st) = build_with_stages(&case.tcs, cfg).map_err(build_err)?;
    if st.clusters.is_empty() && st.test_cases.is_empty() {
        return Err("the grex_verif hooks recorded no stage snapshot during build()".into());
    }
    let merged = st.trie.state_count > st.minimized.state_count;
    if merged && distinct_count(&case.tcs) >= 2 {
        stats.nontrivial(case.key());
    }
    stats.class(if cfg.repetitions { "with -r" } else { "without -r" });
    stats.sample(|| json!({"tcs": case.tcs, "cfg": cfg.tag(), "pattern": pattern, "trie_states": st.trie.state_count, "minimised_states": st.minimized.state_count, "expressions": st.expressions}));

    // label sanity: nested view expands to the flat text
    for l in all_labels(&st) {
        if !l.nested.is_empty() {
            let flat = l.chars.join("");
            let nested = expand_nested(l);
            if nested != flat {
                return Err(format!("a label's nested repetitions {:?} expand to {:?} but its flat text is {:?}", l.nested, nested, flat));
            }
        }
        if l.min == 0 || l.min > l.max {
            return Err(format!("a label has the malformed count {{{},{}}}", l.min, l.max));
        }
    }

    let spec = seqs_to_nfa(&spec_seqs(&case.tcs, cfg));
    let cl = clusters_nfa(&st.clusters, cfg);
    let trie = automaton_nfa(&st.trie, cfg, false);
    let min = automaton_nfa(&st.minimized, cfg, false);
    let inconclusive = |why: String, stats: &mut Stats| {
        stats.inconclusive(&why, || json!({"tcs": case.tcs, "cfg": cfg.tag()}));
    };
    let diff = |a: &Nfa, b: &Nfa| compare_default(a, b);
    let show = |d: &Diff| match d {
        Diff::Equal => String::new(),
        Diff::OnlyLeft(w) => format!("{:?} is accepted only by the earlier stage", w),
        Diff::OnlyRight(w) => format!("{:?} is accepted only by the later stage", w),
    };
    let known_ok = |id: &'static str, stats: &mut Stats| -> Result<(), String> {
        if known::allows("C16", id) {
            stats.known(id, || json!({"tcs": case.tcs, "cfg": cfg.tag(), "pattern": pattern}));
            Ok(())
        } else {
            Err(format!("stage link broken with the signature of {} which is not a listed known finding for C16", id))
        }
    };

    // 1. spec = clusters
    match diff(&spec, &cl) {
        Ok(Diff::Equal) => {}
        Ok(d) => return Err(format!("the converted clusters do not denote the specification: {} (clusters {:?})", show(&d), st.clusters)),
        Err(e) => inconclusive(e, stats),
    }
    // 2. clusters = trie
    match diff(&cl, &trie) {
        Ok(Diff::Equal) => {}
        Ok(d) => {
            let ranged = st.trie.edges.iter().any(|e| e.2.min < e.2.max);
            let superset = matches!(compare_default(&union_nfa(&cl, &trie), &trie), Ok(Diff::Equal));
            if cfg.repetitions && ranged && superset && trie_matches_merge_model(&st, cfg) {
                known_ok("KF-merge", stats)?;
            } else {
                return Err(format!("the trie does not accept exactly the union of the clusters: {}", show(&d)));
            }
        }
        Err(e) => inconclusive(e, stats),
    }
    if cfg.repetitions {
        stats.class(if trie_matches_merge_model(&st, cfg) { "merge-model=agrees" } else { "merge-model=DISAGREES" });
    }
    // 3. trie = minimised
    match diff(&trie, &min) {
        Ok(Diff::Equal) => {}
        Ok(d) => {
            let sf_trie = st.trie.finals.contains(&st.trie.start);
            let sf_min = st.minimized.finals.contains(&st.minimized.start);
            let wo = automaton_nfa(&st.trie, cfg, true);
            if sf_trie && !sf_min && matches!(diff(&wo, &min), Ok(Diff::Equal)) {
                known_ok("KF-empty", stats)?;
            } else {
                return Err(format!("minimisation changed the language: {}", show(&d)));
            }
        }
        Err(e) => inconclusive(e, stats),
    }
    // 4. minimised = first expression; last expression = pattern
    let read = |text: &str| -> Result<Nfa, String> {
        let t = if cfg.ignore_case { format!("(?i){}", text) } else { text.to_string() };
        let h = parse(&t).map_err(|e| format!("invalid:{}", e))?;
        let (_, _, body) = strip_anchors(&h);
        hir_to_nfa(&body).map_err(|e| format!("{:?}", e))
    };
    if let Some(first) = st.expressions.first() {
        match read(first) {
            Ok(e_nfa) => match diff(&min, &e_nfa) {
                Ok(Diff::Equal) => {}
                Ok(d) => {
                    // the single known compensation: for [""] the start-final loss is undone by the
                    // elimination stage returning the empty expression
                    let compensates = st.trie.finals.contains(&st.trie.start) && !st.minimized.finals.contains(&st.minimized.start) && matches!(diff(&trie, &e_nfa), Ok(Diff::Equal));
                    if compensates {
                        known_ok("KF-empty", stats)?;
                    } else {
                        return Err(format!("state elimination changed the language: expression {:?}: {}", first, show(&d)));
                    }
                }
                Err(e) => inconclusive(e, stats),
            },
            Err(e) if e.starts_with("invalid:") => return Err(format!("the expression {:?} is not a valid regex", first)),
            Err(e) => inconclusive(e, stats),
        }
    } else {
        return Err("no expression was recorded".into());
    }
    let p_nfa = read_pattern(&pattern)?;
    if let Some(p_nfa) = p_nfa {
        let last = st.expressions.last().unwrap();
        let e_nfa = read(last).ok();
        let eq_last = e_nfa.as_ref().map_or(false, |e| matches!(diff(e, &p_nfa), Ok(Diff::Equal)));
        // last-resort alternation of the clusters is not recorded as an expression
        let eq_clusters = matches!(diff(&cl, &p_nfa), Ok(Diff::Equal));
        if !eq_last && !(eq_clusters && (cfg.no_end)) {
            return Err(format!("the printed pattern {:?} does not denote the language of the expression {:?}", pattern, last));
        }
    }

    // 5. determinism and minimality without -r
    if !cfg.repetitions {
        let mut seen: HashMap<(usize, String), usize> = HashMap::new();
        for (f, t, l) in &st.minimized.edges {
            let key = (*f, l.chars.join("\u{2}"));
            if let Some(prev) = seen.insert(key, *t) {
                if prev != *t {
                    return Err(format!("the minimised automaton is not deterministic: state {} has two edges labelled {:?}", f, l.chars));
                }
            }
        }
        let classes = moore_classes(&st.trie);
        if st.minimized.state_count != classes {
            return Err(format!(
                "the minimised automaton has {} states but the trie has {} Myhill-Nerode classes (independent Moore refinement)",
                st.minimized.state_count, classes
            ));
        }
    }
    Ok(())
}

fn read_pattern(p: &str) -> Result<Option<Nfa>, String> {
    let h = parse(p).map_err(|e| format!("pattern {:?} is rejected by the regex crate: {}", p, e.lines().last().unwrap_or("")))?;
    let (_, _, body) = strip_anchors(&h);
    Ok(hir_to_nfa(&body).ok())
}

fn fix(mut c: Cfg) -> Cfg {
    c.colour = false;
    c.surrogates = false;
    c.escape = false;
    c.verbose = false;
    if c.min_rep > 6 {
        c.min_rep = 1;
    }
    if c.min_len > 6 {
        c.min_len = 1;
    }
    c
}

fn run(ctx: &mut Ctx) {
    let root = crate::root();
    let reg: Vec<Case> = regress_cases(&root, "C16").into_iter().map(|(_, c)| c).collect();
    ctx.fixed("regress", &reg, &case_fn);

    let mut r = Cfg::default();
    r.repetitions = true;
    let cfgs = vec![Cfg::default(), r.clone()];
    let u1 = Universe::u1();
    ctx.exhaustive("U1 x {plain,-r}", u1.subset_count() * 2, &|i| Case::new(u1.subset(i / 2 + 1), cfgs[(i % 2) as usize].clone()), &case_fn);
    let s5 = SmallSubsets::abc3(5);
    let s4n = SmallSubsets::abc3(4).count();
    ctx.exhaustive("abc3 subsets <=4", s4n, &|i| Case::new(s5.subset(i), Cfg::default()), &case_fn);
    if ctx.tier == Tier::Thorough {
        let n5 = s5.count() - s4n;
        ctx.exhaustive("abc3 5-subsets", n5, &|i| Case::new(s5.subset(s4n + i), Cfg::default()), &case_fn);
        ctx.exhaustive("abc3 subsets <=4 -r", s4n, &|i| Case::new(s5.subset(i), cfgs[1].clone()), &case_fn);
    }
    let urep = Universe::rep_families();
    ctx.exhaustive("Urep x {plain,-r}", urep.subset_count() * 2, &|i| Case::new(urep.subset(i / 2 + 1), cfgs[(i % 2) as usize].clone()), &case_fn);
    let u3a = Universe::u3a();
    ctx.exhaustive("U3a x {plain,-r}", u3a.subset_count() * 2, &|i| Case::new(u3a.subset(i / 2 + 1), cfgs[(i % 2) as usize].clone()), &case_fn);
    let u3b = Universe::u3b();
    ctx.exhaustive("U3b x {plain,-r}", u3b.subset_count() * 2, &|i| Case::new(u3b.subset(i / 2 + 1), cfgs[(i % 2) as usize].clone()), &case_fn);
    if ctx.tier == Tier::Thorough {
        let u2 = Universe::u2();
        ctx.exhaustive("U2 x {plain,-r}", u2.subset_count() * 2, &|i| Case::new(u2.subset(i / 2 + 1), cfgs[(i % 2) as usize].clone()), &case_fn);
        let mut d = Cfg::default();
        d.digits = true;
        let mut dr = d.clone();
        dr.repetitions = true;
        let c2 = vec![d, dr];
        let u = u1.lifted("lift:digit", LIFTS[3].1);
        ctx.exhaustive("U1-digit x {-d,-d -r}", u.subset_count() * 2, &|i| Case::new(u.subset(i / 2 + 1), c2[(i % 2) as usize].clone()), &case_fn);
    }
    let total = ctx.tier.pick(30_000, 600_000);
    let max_ops = ctx.tier.pick(6, 10);
    let strat = move || case_strategy(ALL_POOLS, true, W_DEFAULT, max_ops, 6, fix);
    ctx.generated("gen", &strat, total, &|s, c, st| {
        count_pool(c, st);
        case_fn(s, c, st)
    });
    let total_cf = ctx.tier.pick(40_000, 800_000);
    let strat_cf = move || class_family_strategy(true, fix);
    ctx.generated("class-family", &strat_cf, total_cf, &|s, c, st| case_fn(s, c, st));
    let total_wide = ctx.tier.pick(60_000, 1_500_000);
    let strat_wide = move || wide_short_strategy(fix, true);
    ctx.generated("wide-short", &strat_wide, total_wide, &|s, c, st| case_fn(s, c, st));
    let total_large = ctx.tier.pick(6000, 120000);
    let strat_large = move || case_strategy_large(ALL_POOLS, W_DEFAULT, fix);
    ctx.generated("gen-large", &strat_large, total_large, &|s, c, st| {
        count_pool(c, st);
        case_fn(s, c, st)
    });
    if ctx.tier == crate::runner::Tier::Thorough {
        ctx.fuzz_campaign("fuzz_lang", 10000);
    }
}
