//! C11 Non-ASCII escaping is complete, well-formed and reversible.

use super::c01::{scalar, SCALARS};
use super::common::*;
use super::Check;
use crate::cfg::{build, Case, Cfg};
use crate::gen::*;
use crate::runner::{Ctx, Stats, Tier};
use serde_json::json;
use std::collections::BTreeSet;

pub const CHECK: Check = Check {
    id: "C11",
    run,
    case_fn,
    rule: "cases = (test-case list over BMP/astral/boundary code points, settings with escape on, surrogates on or off, optional -r -x -g -i and classes). Oracles: output bytes all < 0x80; the set of code points denoted by the \\u{..} escapes equals the set of non-ASCII code points of the input (when no class/-i option rewrites them); with surrogates every high surrogate escape is immediately followed by a low one, none is lone, a pair is never directly followed by a quantifier, no astral \\u{1xxxx} remains; decoding (re-pairing) gives a pattern whose language equals that of the unescaped build (symbolic, engine-confirmed). Sweep: build([c]) = ^\\u{hi}\\u{lo}$ for astral c with surrogates, ^\\u{hex}$ otherwise. Non-trivial = the input contains a non-ASCII scalar (with surrogates: an astral one). Distinct = hash of (test cases, settings).",
    assumptions: &["regex-syntax reads \\u{..} escapes exactly as the regex engine does"],
};

/// Parse all `\u{h..}` escapes of an ASCII pattern: (byte offset, byte len, value).
fn escapes(p: &str) -> Vec<(usize, usize, u32)> {
    let b = p.as_bytes();
    let mut out = vec![];
    let mut i = 0;
    while i + 3 < b.len() {
        if b[i] == b'\\' {
            if b[i + 1] == b'u' && b[i + 2] == b'{' {
                if let Some(j) = p[i + 3..].find('}') {
                    if let Ok(v) = u32::from_str_radix(&p[i + 3..i + 3 + j], 16) {
                        out.push((i, j + 4, v));
                        i += j + 4;
                        continue;
                    }
                }
            }
            i += 2; // skip the escaped character (e.g. `\\`)
            continue;
        }
        i += 1;
    }
    out
}

/// Re-pair surrogate escapes. Err = malformed.
pub fn repair_surrogates(p: &str) -> Result<String, String> {
    let es = escapes(p);
    let mut out = String::new();
    let mut pos = 0;
    let mut k = 0;
    while k < es.len() {
        let (off, len, v) = es[k];
        out.push_str(&p[pos..off]);
        if (0xD800..0xDC00).contains(&v) {
            match es.get(k + 1) {
                Some(&(off2, len2, lo)) if off2 == off + len && (0xDC00..0xE000).contains(&lo) => {
                    let after = p[off2 + len2..].chars().next();
                    if matches!(after, Some('{') | Some('?') | Some('*') | Some('+')) {
                        return Err(format!("a quantifier directly follows the surrogate pair at byte {} and binds the low surrogate only", off));
                    }
                    let c = 0x10000 + ((v - 0xD800) << 10) + (lo - 0xDC00);
                    out.push_str(&format!("\\u{{{:x}}}", c));
                    pos = off2 + len2;
                    k += 2;
                    continue;
                }
                _ => return Err(format!("lone high surrogate escape \\u{{{:x}}} at byte {}", v, off)),
            }
        }
        if (0xDC00..0xE000).contains(&v) {
            return Err(format!("lone low surrogate escape \\u{{{:x}}} at byte {}", v, off));
        }
        if v > 0xFFFF {
            return Err(format!("astral escape \\u{{{:x}}} left although surrogate pairs were requested", v));
        }
        out.push_str(&p[off..off + len]);
        pos = off + len;
        k += 1;
    }
    out.push_str(&p[pos..]);
    Ok(out)
}

pub fn case_fn(sub: &str, case: &Case, stats: &mut Stats) -> Result<(), String> {
    let mut cfg = case.cfg.clone();
    cfg.escape = true;
    cfg.colour = false;
    stats.eval();
    let non_ascii: BTreeSet<u32> = case.tcs.iter().flat_map(|t| t.chars()).filter(|c| !c.is_ascii()).map(|c| c as u32).collect();
    let astral = non_ascii.iter().any(|&c| c > 0xFFFF);
    if (cfg.surrogates && astral) || (!cfg.surrogates && !non_ascii.is_empty()) {
        stats.nontrivial(case.key());
    }
    stats.class(if cfg.surrogates { "surrogates" } else { "plain-escape" });
    let p = build(&case.tcs, &cfg).map_err(build_err)?;
    stats.sample(|| json!({"tcs": case.tcs, "cfg": cfg.tag(), "pattern": p}));
    if !p.is_ascii() {
        let bad = p.chars().find(|c| !c.is_ascii()).unwrap();
        return Err(format!("escaped output {:?} contains the non-ASCII character U+{:04X}", p, bad as u32));
    }
    let decoded = if cfg.surrogates { repair_surrogates(&p).map_err(|e| format!("pattern {:?}: {}", p, e))? } else { p.clone() };
    // sweep: exact expected text
    if sub.starts_with("scalars") {
        let c = case.tcs[0].chars().next().unwrap();
        let want = if c.is_ascii() {
            return Ok(());
        } else if cfg.surrogates && (c as u32) > 0xFFFF {
            let mut buf = [0u16; 2];
            let u = c.encode_utf16(&mut buf);
            format!("^\\u{{{:x}}}\\u{{{:x}}}$", u[0], u[1])
        } else {
            format!("^\\u{{{:x}}}$", c as u32)
        };
        if p != want {
            return Err(format!("U+{:04X} [{}]: expected {:?}, got {:?}", c as u32, cfg.tag(), want, p));
        }
        return Ok(());
    }
    // completeness: the escapes denote exactly the non-ASCII code points of the input
    if !cfg.classes() && !cfg.ignore_case {
        let denoted: BTreeSet<u32> = escapes(&decoded).into_iter().map(|e| e.2).collect();
        if denoted != non_ascii {
            return Err(format!(
                "pattern {:?} escapes the code points {:x?} but the input's non-ASCII code points are {:x?}",
                p, denoted, non_ascii
            ));
        }
    }
    // reversibility: same language as the unescaped build
    let mut plain = cfg.clone();
    plain.escape = false;
    plain.surrogates = false;
    let p_plain = build(&case.tcs, &plain).map_err(build_err)?;
    match pattern_diff(&decoded, &p_plain) {
        Ok(None) => Ok(()),
        Ok(Some((w, only_esc))) => {
            stats.confirm();
            Err(format!(
                "escaped build {:?} (decoded {:?}) and unescaped build {:?} differ on {:?} (accepted only by the {})",
                p, decoded, p_plain, w, if only_esc { "escaped build" } else { "unescaped build" }
            ))
        }
        Err(e) if e.starts_with("invalid:") => Err(format!("decoded pattern {:?} (from {:?}) is rejected by the regex crate: {}", decoded, p, e.lines().last().unwrap_or(""))),
        Err(e) => {
            stats.inconclusive(&e, || json!({"tcs": case.tcs, "cfg": cfg.tag(), "pattern": p}));
            Ok(())
        }
    }
}

fn fix(mut c: Cfg) -> Cfg {
    c.escape = true;
    c.colour = false;
    c
}

fn run(ctx: &mut Ctx) {
    let root = crate::root();
    let reg: Vec<Case> = regress_cases(&root, "C11").into_iter().map(|(_, c)| c).collect();
    ctx.fixed("regress", &reg, &case_fn);

    let esc = |s: bool| {
        let mut c = Cfg::default();
        c.escape = true;
        c.surrogates = s;
        c
    };
    // small universe lifted to astral / BMP / ASCII symbols
    let u = Universe::u1().lifted("lift:astral", &[("a", "💩"), ("b", "é"), ("c", "\u{10ffff}")]);
    let cfgs: Vec<Cfg> = {
        let mut v = vec![esc(false), esc(true)];
        let mut r = esc(true);
        r.repetitions = true;
        v.push(r.clone());
        r.verbose = true;
        v.push(r);
        v
    };
    let nc = cfgs.len() as u64;
    ctx.exhaustive("U1-astral x escape cfgs", u.subset_count() * nc, &|i| Case::new(u.subset(i / nc + 1), cfgs[(i % nc) as usize].clone()), &case_fn);

    let total = ctx.tier.pick(30_000, 500_000);
    let max_ops = ctx.tier.pick(5, 10);
    let strat = move || case_strategy(&["boundary", "boundary", "marks", "clusters", "repeat", "cased", "digits", "space", "metamod", "metamod", "backslash", "meta"], true, W_DEFAULT, max_ops, 6, fix);
    ctx.generated("gen", &strat, total, &|s, c, st| {
        count_pool(c, st);
        case_fn(s, c, st)
    });

    // scalar sweep
    let stride = ctx.tier.pick(23u64, 1);
    let off = if stride > 1 { ctx.seed % stride } else { 0 };
    let cnt = (SCALARS - 0x80) / stride;
    let mut edge: Vec<u64> = vec![0x80, 0xff, 0x100, 0xfff, 0x1000, 0xd7ff, 0xe000 - 0x800, 0xffff - 0x800, 0x10000 - 0x800, 0x10001 - 0x800, 0xfffff - 0x800, 0x100000 - 0x800, SCALARS - 2, SCALARS - 1];
    edge.dedup();
    let ne = edge.len() as u64;
    ctx.exhaustive(if stride == 1 { "scalars-all x 2" } else { "scalars-stride x 2" }, (cnt + ne) * 2, &|i| {
        let k = i / 2;
        let idx = if k < ne { edge[k as usize] } else { (0x80 + (k - ne) * stride + off).min(SCALARS - 1) };
        Case::new(vec![scalar(idx).unwrap().to_string()], esc(i % 2 == 1))
    }, &case_fn);
    let _ = Tier::Quick;
    if ctx.tier == crate::runner::Tier::Thorough {
        ctx.fuzz_campaign("fuzz_build", 10000);
    }
}
