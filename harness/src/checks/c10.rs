//! C10 build() is a deterministic function of the test-case set and the settings.

use super::common::*;
use super::Check;
use crate::cfg::{build, build_with_stages, guarded, Case, Cfg, FLAG_NAMES};
use crate::gen::*;
use crate::runner::{Ctx, Stats, Tier};
use grex::RegExpBuilder;
use proptest::collection::vec;
use proptest::prelude::*;
use serde_json::{json, Value};
use std::io::{Read, Write};
use std::process::{Command, Stdio};

pub const CHECK: Check = Check {
    id: "C10",
    run,
    case_fn,
    rule: "four families. interference: a build under settings B right after a build under settings A on the same thread must equal B on a fresh thread. inputs: a generated (test cases, settings) case is rebuilt from permuted and duplicated lists and must equal the canonical build (fresh builder, sorted de-duplicated list). histories: a generated sequence of builder calls (set flag, set threshold, set escape(bool), without_anchors, build, clone-and-continue) is interpreted on the real builder and on a model (flags OR, thresholds and escape last-wins); every intermediate and the final build() must equal a fresh canonical build for the model settings. seeds/schedules: the same build is repeated in one process (every HashSet draws a new RandomState), on 16 threads concurrently and in fresh child processes. Non-trivial = the minimiser merged states (hook: trie states > minimised states), or the history contains an interleaved build or clone. Distinct = hash of (test cases, settings, history).",
    assumptions: &["threads and processes are run, not enumerated; grex has no shared mutable state (three immutable lazy tables), so hash-seed variation is the plausible source and is driven directly"],
};

fn apply_op(b: &mut RegExpBuilder, model: &mut Cfg, op: &Value) -> Result<(), String> {
    if let Some(i) = op.get("flag").and_then(|v| v.as_u64()) {
        let i = i as usize % 15;
        match FLAG_NAMES[i] {
            "digits" => { b.with_conversion_of_digits(); }
            "non_digits" => { b.with_conversion_of_non_digits(); }
            "spaces" => { b.with_conversion_of_whitespace(); }
            "non_spaces" => { b.with_conversion_of_non_whitespace(); }
            "words" => { b.with_conversion_of_words(); }
            "non_words" => { b.with_conversion_of_non_words(); }
            "repetitions" => { b.with_conversion_of_repetitions(); }
            "ignore_case" => { b.with_case_insensitive_matching(); }
            "capture" => { b.with_capturing_groups(); }
            "verbose" => { b.with_verbose_mode(); }
            "no_start" => { b.without_start_anchor(); }
            "no_end" => { b.without_end_anchor(); }
            "colour" => { b.with_syntax_highlighting(); }
            "escape" | "surrogates" => {
                let s = FLAG_NAMES[i] == "surrogates";
                b.with_escaping_of_non_ascii_chars(s);
                model.escape = true;
                model.surrogates = s;
                return Ok(());
            }
            _ => unreachable!(),
        }
        *model.flag_mut(i) = true;
    } else if let Some(n) = op.get("minrep").and_then(|v| v.as_u64()) {
        let n = (n as u32).max(1);
        b.with_minimum_repetitions(n);
        model.min_rep = n;
    } else if let Some(n) = op.get("minlen").and_then(|v| v.as_u64()) {
        let n = (n as u32).max(1);
        b.with_minimum_substring_length(n);
        model.min_len = n;
    } else if op.get("without_anchors").is_some() {
        b.without_anchors();
        model.no_start = true;
        model.no_end = true;
    }
    Ok(())
}

fn canonical(tcs: &[String], cfg: &Cfg) -> Result<String, String> {
    let mut v = tcs.to_vec();
    v.sort();
    v.dedup();
    build(&v, cfg).map_err(build_err)
}

fn child_build(case: &Case) -> Result<String, String> {
    let exe = std::env::current_exe().map_err(|e| e.to_string())?;
    let mut child = Command::new(exe)
        .arg("build-json")
        .stdin(Stdio::piped())
        .stdout(Stdio::piped())
        .stderr(Stdio::null())
        .env("RUST_BACKTRACE", "0")
        .spawn()
        .map_err(|e| format!("spawn: {}", e))?;
    child.stdin.take().unwrap().write_all(serde_json::to_string(&case.to_json()).unwrap().as_bytes()).map_err(|e| e.to_string())?;
    let mut out = String::new();
    child.stdout.take().unwrap().read_to_string(&mut out).map_err(|e| e.to_string())?;
    let st = child.wait().map_err(|e| e.to_string())?;
    if !st.success() {
        return Err(format!("child build failed: {:?} {}", st.code(), out));
    }
    let v: Value = serde_json::from_str(&out).map_err(|e| e.to_string())?;
    Ok(v["pattern"].as_str().unwrap_or("").to_string())
}

/// `gv build-json`: reads a case on stdin, prints {"pattern": ...}
pub fn build_json_main() -> i32 {
    let mut s = String::new();
    if std::io::stdin().read_to_string(&mut s).is_err() {
        return 2;
    }
    let case: Case = match serde_json::from_str(&s) {
        Ok(c) => c,
        Err(_) => return 2,
    };
    match build(&case.tcs, &case.cfg) {
        Ok(p) => {
            println!("{}", json!({"pattern": p}));
            0
        }
        Err(m) => {
            println!("{}", json!({"panic": m}));
            3
        }
    }
}

pub fn case_fn(sub: &str, case: &Case, stats: &mut Stats) -> Result<(), String> {
    let cfg = &case.cfg;
    stats.eval();
    let (canon, merged) = {
        let mut v = case.tcs.clone();
        v.sort();
        v.dedup();
        let (p, st) = build_with_stages(&v, cfg).map_err(build_err)?;
        (p, st.trie.state_count > st.minimized.state_count)
    };
    let history = case.extra.get("history").and_then(|h| h.as_array()).cloned();
    let interleaved = history.as_ref().map_or(false, |h| {
        let n = h.len();
        h.iter().enumerate().any(|(i, op)| (op.get("build").is_some() || op.get("clone").is_some()) && i + 1 < n)
    });
    if merged || interleaved {
        stats.nontrivial(case.key());
    }
    stats.sample(|| json!({"tcs": case.tcs, "cfg": cfg.tag(), "history": case.extra.get("history"), "pattern": canon}));

    // (i) list order and duplicates
    let mut variants: Vec<Vec<String>> = vec![case.tcs.clone()];
    let mut rev = case.tcs.clone();
    rev.reverse();
    variants.push(rev);
    if let Some(perm) = case.extra.get("perm").and_then(|p| p.as_array()) {
        let mut v = case.tcs.clone();
        for (i, x) in perm.iter().enumerate() {
            if v.is_empty() {
                break;
            }
            let j = (x.as_u64().unwrap_or(0) as usize) % v.len();
            let k = i % v.len();
            v.swap(j, k);
            if x.as_u64().unwrap_or(0) % 3 == 0 {
                let d = v[j].clone();
                v.push(d);
            }
        }
        variants.push(v);
    }
    for v in &variants {
        let p = build(v, cfg).map_err(build_err)?;
        stats.eval();
        if p != canon {
            return Err(format!("build{:?} = {:?} but the canonical build of the same set = {:?} [{}]", v, p, canon, cfg.tag()));
        }
    }

    // (iii) hash seeds: rebuild in this process
    let reps = match sub {
        "seeds" | "regress" => 64,
        _ if merged => 12,
        "inputs-case" => 8,
        _ => 3,
    };
    for _ in 0..reps {
        let p = build(&case.tcs, cfg).map_err(build_err)?;
        stats.eval();
        if p != canon {
            return Err(format!("two builds of the same input in one process differ: {:?} vs {:?} (tcs {:?}, {})", canon, p, case.tcs, cfg.tag()));
        }
    }
    if sub == "threads" || sub == "regress" {
        let outs: Vec<Result<String, String>> = std::thread::scope(|s| {
            let hs: Vec<_> = (0..16).map(|_| s.spawn(|| build(&case.tcs, cfg))).collect();
            hs.into_iter().map(|h| h.join().unwrap()).collect()
        });
        for o in outs {
            let p = o.map_err(build_err)?;
            stats.eval();
            if p != canon {
                return Err(format!("a build on another thread differs: {:?} vs {:?}", canon, p));
            }
        }
    }
    if sub == "processes" {
        for _ in 0..case.extra.get("children").and_then(|v| v.as_u64()).unwrap_or(4) {
            let p = child_build(case)?;
            stats.eval();
            if p != canon {
                return Err(format!("a build in a fresh process differs: {:?} vs {:?}", canon, p));
            }
        }
    }

    // (iv) interference between builds: the same build after an unrelated build on this thread
    // must equal the build on a fresh thread (fresh thread-locals); catches caches keyed on too little
    if let Some(prev) = case.extra.get("prev_cfg") {
        if let Ok(prev_cfg) = serde_json::from_value::<Cfg>(prev.clone()) {
            let fresh = std::thread::scope(|s| s.spawn(|| build(&case.tcs, cfg)).join().unwrap()).map_err(build_err)?;
            let _ = build(&case.tcs, &prev_cfg).map_err(build_err)?;
            let after = build(&case.tcs, cfg).map_err(build_err)?;
            stats.evals(3);
            if after != fresh {
                return Err(format!(
                    "build [{}] gives {:?} on a fresh thread but {:?} right after a build with [{}] on the same thread (tcs {:?})",
                    cfg.tag(), fresh, after, prev_cfg.tag(), case.tcs
                ));
            }
        }
    }

    // (ii) histories
    if let Some(h) = history {
        let r = guarded(|| -> Result<(), String> {
            let mut model = Cfg::default();
            let mut b = RegExpBuilder::from(&case.tcs);
            for op in &h {
                if op.get("build").is_some() {
                    let got = b.build();
                    let want = canonical(&case.tcs, &model)?;
                    if got != want {
                        return Err(format!("after history prefix the builder returned {:?}, a fresh builder with settings [{}] returns {:?}", got, model.tag(), want));
                    }
                } else if op.get("clone").is_some() {
                    let c = b.clone();
                    let got = b.build();
                    b = c;
                    let again = b.clone().build();
                    if got != again {
                        return Err(format!("a clone builds {:?}, the original {:?}", again, got));
                    }
                } else {
                    apply_op(&mut b, &mut model, op)?;
                }
            }
            let got = b.build();
            let want = canonical(&case.tcs, &model)?;
            if got != want {
                return Err(format!("after the history the builder returned {:?}, a fresh builder with settings [{}] returns {:?}", got, model.tag(), want));
            }
            let got2 = b.build();
            if got2 != got {
                return Err(format!("calling build() twice gives {:?} then {:?}", got, got2));
            }
            Ok(())
        });
        stats.eval();
        match r {
            Ok(r) => r?,
            Err(m) => return Err(format!("history panicked: {}", m)),
        }
    }
    Ok(())
}

fn fix(mut c: Cfg) -> Cfg {
    if !c.escape {
        c.surrogates = false;
    }
    c
}

fn history_strategy() -> BoxedStrategy<Value> {
    let op = prop_oneof![
        6 => (0u64..15).prop_map(|i| json!({"flag": i})),
        1 => (1u64..5).prop_map(|n| json!({"minrep": n})),
        1 => (1u64..5).prop_map(|n| json!({"minlen": n})),
        1 => Just(json!({"without_anchors": true})),
        2 => Just(json!({"build": true})),
        1 => Just(json!({"clone": true})),
    ];
    vec(op, 0..12).prop_map(Value::Array).boxed()
}

fn run(ctx: &mut Ctx) {
    let root = crate::root();
    let reg: Vec<Case> = regress_cases(&root, "C10").into_iter().map(|(_, c)| c).collect();
    ctx.fixed("regress", &reg, &case_fn);

    // inputs + in-process seeds on generated cases
    let total = ctx.tier.pick(12_000, 250_000);
    let max_ops = ctx.tier.pick(6, 10);
    let strat = move || {
        (case_strategy(ALL_POOLS, true, W_DEFAULT, max_ops, 5, fix), vec(any::<u16>(), 0..8))
            .prop_map(|(mut c, perm)| {
                c.extra = json!({"pool": c.extra["pool"], "perm": perm});
                c
            })
            .boxed()
    };
    ctx.generated("inputs", &strat, total, &|s, c, st| {
        count_pool(c, st);
        case_fn(s, c, st)
    });

    // case variants under -i: spellings that differ only by case, including letters whose
    // lower-casing is refused (length-changing or unknown to the engine) — order / duplicates /
    // hash seeds must not decide which spelling survives
    let total_c = ctx.tier.pick(10_000, 150_000);
    let strat_c = move || {
        (case_strategy(&["cased", "cased", "fold-s", "fold-sigma"], false, W_CASE, 6, 3, fix), vec(any::<u16>(), 0..8))
            .prop_map(|(mut c, perm)| {
                c.cfg.ignore_case = true;
                c.extra = json!({"pool": c.extra["pool"], "perm": perm});
                c
            })
            .boxed()
    };
    ctx.generated("inputs-case", &strat_c, total_c, &|s, c, st| case_fn(s, c, st));

    // interference: build under settings A, then under settings B (same test cases, same thread)
    let total_i = ctx.tier.pick(10_000, 150_000);
    let strat_i = move || {
        (case_strategy(&["repeat", "abc", "digits", "boundary", "cased"], false, W_REPEAT, 5, 5, fix), cfg_strategy())
            .prop_map(|(mut c, b)| {
                let mut a = c.cfg.clone();
                a.repetitions = true;
                a.min_rep = 1;
                a.min_len = 1;
                let mut bb = fix(b);
                bb.repetitions = true;
                if bb.min_rep > 6 {
                    bb.min_rep = 2;
                }
                if bb.min_len > 6 {
                    bb.min_len = 2;
                }
                // half of the time B differs from A ONLY in presentation settings (a cache keyed on
                // the language-relevant settings but filled with presentation-dependent values
                // shows exactly then)
                if c.key() & 1 == 0 {
                    let flips = (c.key() >> 1) & 0x3f;
                    let mut d = a.clone();
                    if flips & 1 != 0 { d.capture = !d.capture; }
                    if flips & 2 != 0 { d.verbose = !d.verbose; }
                    if flips & 4 != 0 { d.escape = !d.escape; d.surrogates = false; }
                    if flips & 8 != 0 { d.colour = !d.colour; }
                    if flips & 16 != 0 { d.no_end = !d.no_end; }
                    if flips & 32 != 0 { d.ignore_case = !d.ignore_case; }
                    if flips & 0x3f == 0 { d.capture = !d.capture; }
                    bb = d;
                }
                c.cfg = bb;
                c.extra = json!({"pool": c.extra["pool"], "prev_cfg": a});
                c
            })
            .boxed()
    };
    ctx.generated("interference", &strat_i, total_i, &|s, c, st| case_fn(s, c, st));

    // crossing families: the shape on which equivalent states have different edge orders
    let syms = ["a", "b", "c", "d", "1", "2", "x", "y"];
    let mut cross: Vec<Case> = vec![];
    for flags in [vec![0usize], vec![4], vec![], vec![0, 6]] {
        let mut cfg = Cfg::default();
        for f in &flags {
            *cfg.flag_mut(*f) = true;
        }
        for i in 0..syms.len() {
            for j in 0..syms.len() {
                if i == j {
                    continue;
                }
                let (p, q) = (syms[i], syms[j]);
                cross.push(Case::new(
                    vec![format!("x1{}c", p), format!("x2{}d", q), format!("y1{}d", q), format!("y2{}c", p)],
                    cfg.clone(),
                ));
            }
        }
    }
    ctx.fixed("seeds", &cross, &case_fn);

    // histories
    let total_h = ctx.tier.pick(8_000, 150_000);
    let strat_h = move || {
        (program_strategy(ALL_POOLS, false, W_DEFAULT, 5, 4), history_strategy())
            .prop_map(|(p, h)| {
                let mut c = Case::new(p.interpret(), Cfg::default());
                c.extra = json!({"pool": p.pool_name(), "history": h});
                c
            })
            .boxed()
    };
    ctx.generated("histories", &strat_h, total_h, &|s, c, st| {
        count_pool(c, st);
        case_fn(s, c, st)
    });

    // threads and processes on a fixed sample of merged-state cases
    let sample: Vec<Case> = cross.iter().step_by(ctx.tier.pick(11, 2)).cloned().collect();
    ctx.fixed("threads", &sample, &case_fn);
    let children = ctx.tier.pick(2u64, 8);
    let procs: Vec<Case> = cross
        .iter()
        .step_by(ctx.tier.pick(37, 5))
        .cloned()
        .map(|mut c| {
            c.extra = json!({"children": children});
            c
        })
        .collect();
    let np = procs.len() as u64;
    ctx.exhaustive("processes", np, &|i| procs[i as usize].clone(), &case_fn);
    let _ = Tier::Quick;
}
