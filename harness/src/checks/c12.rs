//! C12 The CLI is a faithful front end of the library on every input channel.

use super::c07::{MSG_EMPTY};
use super::common::*;
use super::Check;
use crate::cfg::{build, guarded, Case, Cfg};
use crate::gen::*;
use crate::runner::{Ctx, Stats, Tier};
use grex::RegExpBuilder;
use proptest::prelude::*;
use serde_json::json;
use std::io::Write;
use std::process::{Command, Stdio};
use std::sync::atomic::{AtomicU64, Ordering};

pub const CHECK: Check = Check {
    id: "C12",
    run,
    case_fn,
    rule: "cases = (argument-safe test-case list, any CLI flag subset incl. -c and --with-surrogates, thresholds) x channel in {arguments, -f file, '-' with stdin, -f - with the file name on stdin} x {LF, CRLF} x {final newline or not}, flags spelled short or long in shuffled order, always before the test cases as the usage line `grex [OPTIONS] {INPUT...|--file <FILE>}` prescribes (INPUT allows hyphen values, so anything after the first test case is a test case). The grex binary is rebuilt from /repo's working tree (release, hooks off). Oracle: stdout = in-process build() + newline, exit 0, empty stderr; RegExpBuilder::from_file(path) builds the same as from(lines). Error inputs (empty file, missing file, non-UTF-8 file, non-UTF-8 stdin, empty stdin, zero thresholds): exit status non-zero and not 101, no 'panicked at', empty stdout, a one-line message (clap's own usage errors: first line starts with 'error:'); from_file on an empty file panics like from(&[]). Safety restrictions by construction: no NUL in arguments, no LF inside and no CR at the end of a line-based test case, a trailing empty test case needs the final newline. Non-trivial = at least 2 flags and 2 test cases, or a non-argument channel, or an error input. Distinct = hash of (test cases, settings, channel).",
    assumptions: &["the kernel passes argv unchanged; stdin of every child is a pipe or /dev/null, never a terminal"],
};

static COUNTER: AtomicU64 = AtomicU64::new(0);

fn grex_bin() -> String {
    std::env::var("GV_GREX_BIN").unwrap_or_else(|_| format!("{}/.target/cli/release/grex", crate::root()))
}

fn tmp_dir() -> std::path::PathBuf {
    let d = std::env::temp_dir().join(format!("gv-c12-{}", std::process::id()));
    let _ = std::fs::create_dir_all(&d);
    d
}

struct Out {
    code: Option<i32>,
    stdout: Vec<u8>,
    stderr: String,
}

fn run_cli(args: &[String], stdin: Option<&[u8]>) -> Result<Out, String> {
    let mut cmd = Command::new(grex_bin());
    cmd.args(args).stdout(Stdio::piped()).stderr(Stdio::piped()).env("RUST_BACKTRACE", "0").env("NO_COLOR", "0");
    cmd.stdin(if stdin.is_some() { Stdio::piped() } else { Stdio::null() });
    let mut child = cmd.spawn().map_err(|e| format!("INFRA cannot spawn {}: {}", grex_bin(), e))?;
    if let Some(data) = stdin {
        let mut si = child.stdin.take().unwrap();
        let _ = si.write_all(data);
    }
    let o = child.wait_with_output().map_err(|e| format!("INFRA wait: {}", e))?;
    Ok(Out { code: o.status.code(), stdout: o.stdout, stderr: String::from_utf8_lossy(&o.stderr).to_string() })
}

fn cli_flags(cfg: &Cfg, spell: u64) -> Vec<String> {
    let table: [(bool, &str, &str); 15] = [
        (cfg.digits, "-d", "--digits"),
        (cfg.non_digits, "-D", "--non-digits"),
        (cfg.spaces, "-s", "--spaces"),
        (cfg.non_spaces, "-S", "--non-spaces"),
        (cfg.words, "-w", "--words"),
        (cfg.non_words, "-W", "--non-words"),
        (cfg.repetitions, "-r", "--repetitions"),
        (cfg.ignore_case, "-i", "--ignore-case"),
        (cfg.capture, "-g", "--capture-groups"),
        (cfg.escape, "-e", "--escape"),
        (cfg.escape && cfg.surrogates, "--with-surrogates", "--with-surrogates"),
        (cfg.verbose, "-x", "--verbose"),
        (cfg.no_start && !(cfg.no_end && spell & 1 == 1), "--no-start-anchor", "--no-start-anchor"),
        (cfg.no_end && !(cfg.no_start && spell & 1 == 1), "--no-end-anchor", "--no-end-anchor"),
        (cfg.colour, "-c", "--colorize"),
    ];
    let mut v: Vec<String> = vec![];
    for (i, (on, short, long)) in table.iter().enumerate() {
        if *on {
            v.push(if spell >> (i + 1) & 1 == 1 { short.to_string() } else { long.to_string() });
        }
    }
    if cfg.no_start && cfg.no_end && spell & 1 == 1 {
        v.push("--no-anchors".into());
    }
    if cfg.min_rep != 1 {
        v.push("--min-repetitions".into());
        v.push(cfg.min_rep.to_string());
    }
    if cfg.min_len != 1 {
        if spell >> 20 & 1 == 1 {
            v.push(format!("--min-substring-length={}", cfg.min_len));
        } else {
            v.push("--min-substring-length".into());
            v.push(cfg.min_len.to_string());
        }
    }
    // deterministic shuffle of whole tokens (value-taking options are kept together)
    let mut groups: Vec<Vec<String>> = vec![];
    let mut i = 0;
    while i < v.len() {
        if (v[i] == "--min-repetitions" || v[i] == "--min-substring-length") && i + 1 < v.len() {
            groups.push(vec![v[i].clone(), v[i + 1].clone()]);
            i += 2;
        } else {
            groups.push(vec![v[i].clone()]);
            i += 1;
        }
    }
    let mut s = spell.wrapping_mul(0x9E3779B97F4A7C15) | 1;
    for k in (1..groups.len()).rev() {
        s ^= s << 13;
        s ^= s >> 7;
        s ^= s << 17;
        groups.swap(k, (s % (k as u64 + 1)) as usize);
    }
    groups.into_iter().flatten().collect()
}

fn error_case(kind: &str, stats: &mut Stats) -> Result<(), String> {
    let dir = tmp_dir();
    let n = COUNTER.fetch_add(1, Ordering::Relaxed);
    let path = dir.join(format!("err-{}.txt", n));
    let ps = path.to_string_lossy().to_string();
    let (args, stdin): (Vec<String>, Option<Vec<u8>>) = match kind {
        "empty-file" => {
            std::fs::write(&path, b"").map_err(|e| e.to_string())?;
            (vec!["-f".into(), ps.clone()], None)
        }
        "missing-file" => (vec!["-f".into(), format!("{}.does-not-exist", ps)], None),
        "non-utf8-file" => {
            std::fs::write(&path, b"abc\n\xff\xfe\n").map_err(|e| e.to_string())?;
            (vec!["-f".into(), ps.clone()], None)
        }
        "non-utf8-stdin" => (vec!["-".into()], Some(b"ab\n\xff\xfe\n".to_vec())),
        "empty-stdin" => (vec!["-".into()], Some(vec![])),
        "missing-file-via-stdin" => (vec!["-f".into(), "-".into()], Some(format!("{}.nope\n", ps).into_bytes())),
        "empty-file-via-stdin" => {
            std::fs::write(&path, b"").map_err(|e| e.to_string())?;
            (vec!["-f".into(), "-".into()], Some(format!("{}\n", ps).into_bytes()))
        }
        "minrep0" => (vec!["--min-repetitions".into(), "0".into(), "-r".into(), "aaa".into()], None),
        "minlen0" => (vec!["--min-substring-length".into(), "0".into(), "-r".into(), "aaa".into()], None),
        "minrep-negative" => (vec!["--min-repetitions=-1".into(), "-r".into(), "aaa".into()], None),
        other => return Err(format!("unknown error kind {}", other)),
    };
    let o = run_cli(&args, stdin.as_deref())?;
    let _ = std::fs::remove_file(&path);
    stats.sample(|| json!({"error_input": kind, "exit": o.code, "stderr": o.stderr}));
    let ctx = format!("error input '{}' (args {:?}): exit {:?}, stdout {:?}, stderr {:?}", kind, args, o.code, String::from_utf8_lossy(&o.stdout), o.stderr);
    if o.stderr.contains("panicked at") || o.code == Some(101) {
        return Err(format!("the CLI panicked on {}", ctx));
    }
    match o.code {
        Some(0) => return Err(format!("the CLI reported success on {}", ctx)),
        None => return Err(format!("the CLI was killed by a signal on {}", ctx)),
        _ => {}
    }
    if !o.stdout.is_empty() {
        return Err(format!("the CLI printed to stdout on {}", ctx));
    }
    let lines: Vec<&str> = o.stderr.lines().filter(|l| !l.trim().is_empty()).collect();
    let clap_usage = kind.starts_with("min");
    if clap_usage {
        if !lines.first().map_or(false, |l| l.starts_with("error:")) {
            return Err(format!("usage error does not start with 'error:' on {}", ctx));
        }
    } else if lines.len() != 1 {
        return Err(format!("expected a one-line error message on {}", ctx));
    }
    // the library side: from_file on an empty file behaves like from(&[])
    if kind == "empty-file" {
        std::fs::write(&path, b"").map_err(|e| e.to_string())?;
        let r = guarded(|| {
            RegExpBuilder::from_file(path.clone()).build()
        });
        let _ = std::fs::remove_file(&path);
        match r {
            Err(m) if m == MSG_EMPTY => {}
            Err(m) => return Err(format!("from_file(empty file) panics with {:?}, from(&[]) with {:?}", m, MSG_EMPTY)),
            Ok(p) => return Err(format!("from_file(empty file) builds {:?} but from() on its (zero) lines panics with {:?}", p, MSG_EMPTY)),
        }
    }
    Ok(())
}

pub fn case_fn(_sub: &str, case: &Case, stats: &mut Stats) -> Result<(), String> {
    stats.eval();
    if let Some(kind) = case.extra.get("error").and_then(|v| v.as_str()) {
        stats.nontrivial(case.key());
        stats.class(&format!("error={}", kind));
        return error_case(kind, stats).map_err(|e| if e.starts_with("INFRA") { e } else { e });
    }
    let cfg = &case.cfg;
    let channel = case.extra.get("channel").and_then(|v| v.as_str()).unwrap_or("args").to_string();
    let crlf = case.extra.get("crlf").and_then(|v| v.as_bool()).unwrap_or(false);
    let mut final_nl = case.extra.get("final_nl").and_then(|v| v.as_bool()).unwrap_or(true);
    let spell = case.extra.get("spell").and_then(|v| v.as_u64()).unwrap_or(0);
    // argument safety by construction (counted)
    let mut tcs: Vec<String> = case.tcs.clone();
    let mut adjusted = false;
    for t in tcs.iter_mut() {
        let clean: String = if channel == "args" {
            t.chars().filter(|&c| c != '\0').collect()
        } else {
            // a line cannot contain LF, and a trailing CR would be read as part of a CRLF ending;
            // a CR in the middle of a line is ordinary text for `str::lines` and is kept
            let no_lf: String = t.chars().filter(|&c| c != '\n').collect();
            no_lf.trim_end_matches('\r').to_string()
        };
        if clean != *t {
            adjusted = true;
            *t = clean;
        }
    }
    if channel == "args" && tcs.len() == 1 && tcs[0] == "-" {
        tcs.push("a".into());
        adjusted = true;
    }
    if channel != "args" && tcs.last().map_or(false, |t| t.is_empty()) && !final_nl {
        final_nl = true;
        adjusted = true;
    }
    if adjusted {
        stats.class("adjusted-for-channel-safety");
    }
    stats.class(&format!("channel={}{}", channel, if channel == "args" { "" } else if crlf { "+crlf" } else { "+lf" }));
    if (cfg.flag_count() >= 2 && tcs.len() >= 2) || channel != "args" {
        stats.nontrivial(case.key());
    }
    let expected = build(&tcs, cfg).map_err(build_err)?;
    let flags = cli_flags(cfg, spell);
    let eol = if crlf { "\r\n" } else { "\n" };
    let mut content = tcs.join(eol);
    if final_nl {
        content.push_str(eol);
    }
    let dir = tmp_dir();
    let n = COUNTER.fetch_add(1, Ordering::Relaxed);
    let path = dir.join(format!("in-{}.txt", n));
    let ps = path.to_string_lossy().to_string();
    let (args, stdin): (Vec<String>, Option<Vec<u8>>) = match channel.as_str() {
        "args" => {
            let mut a = flags.clone();
            let needs_dd = tcs.iter().any(|t| t.starts_with('-'));
            if needs_dd || spell >> 21 & 1 == 1 {
                a.push("--".into());
                a.extend(tcs.iter().cloned());
            } else {
                a.extend(tcs.iter().cloned());
            }
            (a, None)
        }
        "file" => {
            std::fs::write(&path, content.as_bytes()).map_err(|e| format!("INFRA {}", e))?;
            let mut a = flags.clone();
            if spell >> 23 & 1 == 1 {
                a.push(format!("--file={}", ps));
            } else {
                a.push("-f".into());
                a.push(ps.clone());
            }
            (a, None)
        }
        "stdin" => {
            let mut a = flags.clone();
            a.push("-".into());
            (a, Some(content.clone().into_bytes()))
        }
        "file-stdin" => {
            std::fs::write(&path, content.as_bytes()).map_err(|e| format!("INFRA {}", e))?;
            let mut a = flags.clone();
            a.push("-f".into());
            a.push("-".into());
            (a, Some(format!("{}{}", ps, if spell >> 24 & 1 == 1 { "\n" } else { "" }).into_bytes()))
        }
        other => return Err(format!("unknown channel {}", other)),
    };
    let o = run_cli(&args, stdin.as_deref());
    // library side of the file channels
    let lib_from_file = if channel == "file" || channel == "file-stdin" {
        Some(guarded(|| {
            let mut b = RegExpBuilder::from_file(path.clone());
            cfg.apply(&mut b);
            b.build()
        }))
    } else {
        None
    };
    let _ = std::fs::remove_file(&path);
    let o = o?;
    stats.sample(|| json!({"args": args, "stdin": stdin.as_ref().map(|s| String::from_utf8_lossy(s).to_string()), "stdout": String::from_utf8_lossy(&o.stdout)}));
    let want = format!("{}\n", expected);
    if o.code != Some(0) || o.stdout != want.as_bytes() || !o.stderr.is_empty() {
        return Err(format!(
            "grex {:?} (channel {}, content {:?}): exit {:?}, stdout {:?}, stderr {:?}; the library builds {:?}",
            args, channel, if channel == "args" { String::new() } else { content.clone() }, o.code, String::from_utf8_lossy(&o.stdout), o.stderr, expected
        ));
    }
    if let Some(r) = lib_from_file {
        match r {
            Ok(p) if p == expected => {}
            Ok(p) => return Err(format!("from_file on content {:?} builds {:?}, from(lines) builds {:?}", content, p, expected)),
            Err(m) => return Err(format!("from_file on content {:?} panicked: {}", content, m)),
        }
    }
    Ok(())
}

fn fix(mut c: Cfg) -> Cfg {
    if !c.escape {
        c.surrogates = false;
    }
    if c.min_rep > 6 {
        c.min_rep = 7;
    }
    if c.min_len > 6 {
        c.min_len = 7;
    }
    c
}

fn run(ctx: &mut Ctx) {
    if !std::path::Path::new(&grex_bin()).exists() {
        ctx.infra_errors.push(format!("grex binary {} not built", grex_bin()));
        return;
    }
    let root = crate::root();
    let reg: Vec<Case> = regress_cases(&root, "C12").into_iter().map(|(_, c)| c).collect();
    ctx.fixed("regress", &reg, &case_fn);

    let errs: Vec<Case> = ["empty-file", "missing-file", "non-utf8-file", "non-utf8-stdin", "empty-stdin", "missing-file-via-stdin", "empty-file-via-stdin", "minrep0", "minlen0", "minrep-negative"]
        .iter()
        .map(|k| {
            let mut c = Case::new(vec![], Cfg::default());
            c.extra = json!({"error": k});
            c
        })
        .collect();
    ctx.fixed("error-inputs", &errs, &case_fn);

    // blank-only files are valid input ([""] / ["", ""])
    let mut blank = vec![];
    for (tcs, crlf) in [(vec![""], false), (vec![""], true), (vec!["", ""], false), (vec!["a", "", "b"], true)] {
        for ch in ["file", "stdin", "file-stdin"] {
            let mut c = Case::new(tcs.iter().map(|s| s.to_string()).collect(), Cfg::default());
            c.extra = json!({"channel": ch, "crlf": crlf, "final_nl": true, "spell": 0});
            blank.push(c);
        }
    }
    ctx.fixed("blank-lines", &blank, &case_fn);

    let total = ctx.tier.pick(16_000, 250_000);
    let max_ops = ctx.tier.pick(5, 8);
    let strat = move || {
        (
            case_strategy(ALL_POOLS, true, W_DEFAULT, max_ops, 4, fix),
            proptest::sample::select(vec!["args", "args", "file", "stdin", "file-stdin"]),
            any::<bool>(),
            any::<bool>(),
            any::<u32>(),
        )
            .prop_map(|(mut c, ch, crlf, nl, spell)| {
                c.extra = json!({"pool": c.extra["pool"], "channel": ch, "crlf": crlf, "final_nl": nl, "spell": spell});
                c
            })
            .boxed()
    };
    ctx.generated("gen", &strat, total, &|s, c, st| {
        count_pool(c, st);
        case_fn(s, c, st)
    });
    let _ = std::fs::remove_dir_all(tmp_dir());
    let _ = Tier::Quick;
}
