//! C03 Shorthand-class options generalise exactly as documented.

use super::common::*;
use super::Check;
use crate::cfg::{build_with_stages, Case, Cfg};
use crate::gen::*;
use crate::runner::{Ctx, Stats, Tier};
use crate::spec::documented_class;
use proptest::prelude::*;
use serde_json::json;

pub const CHECK: Check = Check {
    id: "C03",
    run,
    case_fn,
    rule: "cases = (test-case list, settings with a non-empty subset of the six conversion flags, optionally -i -e -x -g -r). The oracle language replaces every code point by the regex crate's own class of the documented precedence (\\d, \\w, \\s, \\D, \\W, \\S) or keeps it literal. Non-trivial = some test case has at least one converted and one literal code point, or two different class tokens. Distinct = hash of (test cases, settings).",
    assumptions: &[
        "class membership is defined by regex-syntax 0.8.4's Unicode perl classes (the property says 'the regex crate's class of that name')",
        "with -r the known over-match of the trie merge (KF-merge) and with \"\" KF-empty are tolerated only on their exact stage signatures",
    ],
};

fn nontrivial(case: &Case) -> bool {
    case.tcs.iter().any(|t| {
        let toks: Vec<Option<char>> = t.chars().map(|c| documented_class(c, &case.cfg)).collect();
        let conv = toks.iter().filter(|x| x.is_some()).count();
        let mut kinds: Vec<char> = toks.iter().flatten().copied().collect();
        kinds.sort_unstable();
        kinds.dedup();
        (conv > 0 && conv < toks.len()) || kinds.len() >= 2
    })
}

pub fn case_fn(_sub: &str, case: &Case, stats: &mut Stats) -> Result<(), String> {
    let cfg = &case.cfg;
    if !cfg.classes() || !cfg.regex_crate() {
        return Ok(());
    }
    stats.eval();
    if nontrivial(case) {
        stats.nontrivial(case.key());
    }
    let mask = [cfg.digits, cfg.non_digits, cfg.spaces, cfg.non_spaces, cfg.words, cfg.non_words]
        .iter()
        .enumerate()
        .fold(0u32, |m, (i, &b)| m | ((b as u32) << i));
    stats.class(&format!("classmask={:02}", mask));
    let (pattern, stages) = build_with_stages(&case.tcs, cfg).map_err(build_err)?;
    stats.sample(|| json!({"tcs": case.tcs, "cfg": cfg.tag(), "pattern": pattern}));
    judge_case("C03", case, cfg, &pattern, Some(&stages), stats)?;
    Ok(())
}

fn fix(mut c: Cfg) -> Cfg {
    c.colour = false;
    c.surrogates = false;
    c.no_start = false;
    c.no_end = false;
    c
}

fn fix_large(c: Cfg) -> Cfg {
    let mut c = fix(c);
    if !c.classes() {
        c.digits = true;
        c.non_words = true;
    }
    c
}

fn class_mask_cfg(mask: u32, base: &Cfg) -> Cfg {
    let mut c = base.clone();
    c.digits = mask & 1 != 0;
    c.non_digits = mask & 2 != 0;
    c.spaces = mask & 4 != 0;
    c.non_spaces = mask & 8 != 0;
    c.words = mask & 16 != 0;
    c.non_words = mask & 32 != 0;
    c
}

const POOLS3: &[&str] = &["digits", "space", "cased", "marks", "backslash", "meta", "boundary", "clusters", "lookalike"];

fn run(ctx: &mut Ctx) {
    let root = crate::root();
    let reg: Vec<Case> = regress_cases(&root, "C03").into_iter().map(|(_, c)| c).collect();
    ctx.fixed("regress", &reg, &case_fn);

    // small universes lifted to digit/space/letter symbols x all 63 flag subsets
    let u = Universe::u1().lifted("lift:digit", LIFTS[3].1);
    let n = u.subset_count();
    let masks: Vec<u32> = match ctx.tier {
        Tier::Quick => vec![1, 2, 4, 8, 16, 32, 1 | 16, 2 | 32, 4 | 8, 63, 1 | 8, 16 | 4],
        Tier::Thorough => (1..64).collect(),
    };
    let nm = masks.len() as u64;
    ctx.exhaustive("U1-digit x masks", n * nm, &|i| Case::new(u.subset(i / nm + 1), class_mask_cfg(masks[(i % nm) as usize], &Cfg::default())), &case_fn);
    if ctx.tier == Tier::Thorough {
        let mut r = Cfg::default();
        r.repetitions = true;
        ctx.exhaustive("U1-digit x masks -r", n * nm, &|i| Case::new(u.subset(i / nm + 1), class_mask_cfg(masks[(i % nm) as usize], &r)), &case_fn);
    }

    // generated: every one of the 63 class subsets equally likely
    let total = ctx.tier.pick(30_000, 700_000);
    let max_ops = ctx.tier.pick(5, 10);
    let strat = move || {
        (case_strategy(POOLS3, true, W_DEFAULT, max_ops, 5, fix), 1u32..64)
            .prop_map(|(mut c, mask)| {
                c.cfg = class_mask_cfg(mask, &c.cfg);
                c
            })
            .boxed()
    };
    ctx.generated("gen", &strat, total, &|s, c, st| {
        count_pool(c, st);
        case_fn(s, c, st)
    });
    let total_large = ctx.tier.pick(5000, 100000);
    let strat_large = move || case_strategy_large(POOLS3, W_DEFAULT, fix_large);
    ctx.generated("gen-large", &strat_large, total_large, &|s, c, st| {
        count_pool(c, st);
        case_fn(s, c, st)
    });
    if ctx.tier == crate::runner::Tier::Thorough {
        ctx.fuzz_campaign("fuzz_lang", 8000);
    }
}
