//! C17 The WebAssembly binding delegates faithfully to the library.
//! The Rust wrapper (src/wasm.rs) is compiled natively under --cfg grex_verif against a stand-in
//! for wasm-bindgen (JsValue = undefined | null | bool | number | string); the real JS glue is not
//! exercised (no wasm32 target in this sandbox).

use super::c07::{MSG_EMPTY, MSG_MINLEN, MSG_MINREP};
use super::common::*;
use super::Check;
use crate::cfg::{build, guarded, Case, Cfg, FLAG_NAMES};
use crate::gen::*;
use crate::runner::{Ctx, Stats, Tier};
use grex::verif_wasm::RegExpBuilder as WasmBuilder;
use proptest::collection::vec;
use proptest::prelude::*;
use serde_json::{json, Value};
use wasm_bindgen::JsValue;

pub const CHECK: Check = Check {
    id: "C17",
    run,
    case_fn,
    rule: "cases = (array of JS values: strings mixed with undefined/null/booleans/numbers; a sequence of calls on a POOL of live objects: every setter mutates the object it is called on and returns a clone that joins the pool; later calls (setters or intermediate build()s) may target any object). The wrapper is interpreted next to a model (flags OR, thresholds and escape last-wins, string elements only); at the end build() on EVERY live object (twice) must equal the library build of the string elements under that object's own model settings. An empty or all-non-string array and zero thresholds must return Err(message) with the library's messages and never panic. Non-trivial = the array mixes strings and non-strings, or the sequence has at least 3 calls, or it is an error case. Distinct = hash of (array, call sequence).",
    assumptions: &["only the Rust wrapper logic is decided; wasm-bindgen's generated glue, JS string conversion (lone surrogates) and trap behaviour are outside what this sandbox can run"],
};

fn js_array(case: &Case) -> Vec<JsValue> {
    // extra.js = list of items: {"s": index into tcs} | "undefined" | "null" | true/false | number
    match case.extra.get("js").and_then(|v| v.as_array()) {
        Some(items) => items
            .iter()
            .map(|it| match it {
                Value::Object(o) => {
                    let i = o.get("s").and_then(|v| v.as_u64()).unwrap_or(0) as usize;
                    JsValue::Str(case.tcs.get(i).cloned().unwrap_or_default())
                }
                Value::String(s) if s == "null" => JsValue::Null,
                Value::Bool(b) => JsValue::Bool(*b),
                Value::Number(n) => JsValue::Number(n.as_f64().unwrap_or(0.0)),
                _ => JsValue::Undefined,
            })
            .collect(),
        None => case.tcs.iter().map(|t| JsValue::Str(t.clone())).collect(),
    }
}

fn err_text(e: &JsValue) -> String {
    match e {
        JsValue::Str(s) => s.clone(),
        other => format!("{:?}", other),
    }
}

pub fn case_fn(_sub: &str, case: &Case, stats: &mut Stats) -> Result<(), String> {
    stats.eval();
    let arr = js_array(case);
    let strings: Vec<String> = arr.iter().filter_map(|v| v.as_string()).collect();
    let calls: Vec<Value> = case.extra.get("calls").and_then(|v| v.as_array()).cloned().unwrap_or_default();
    let mixed = strings.len() != arr.len() && !strings.is_empty();
    if mixed || calls.len() >= 3 || strings.is_empty() {
        stats.nontrivial(case.key());
    }
    stats.class(if strings.is_empty() { "no-strings" } else if mixed { "mixed" } else { "strings-only" });
    stats.sample(|| json!({"array": format!("{:?}", arr), "calls": calls}));
    let r = guarded(|| -> Result<(), String> {
        let made = WasmBuilder::from(arr.clone().into_boxed_slice());
        let mut original = match made {
            Ok(b) => {
                if strings.is_empty() {
                    return Err("from() accepted an array without any string".into());
                }
                b
            }
            Err(e) => {
                return if strings.is_empty() && err_text(&e) == MSG_EMPTY {
                    Ok(())
                } else if strings.is_empty() {
                    Err(format!("from() on an array without strings returned Err({:?}), expected the library's message {:?}", e, MSG_EMPTY))
                } else {
                    Err(format!("from() rejected an array containing strings: {:?}", e))
                };
            }
        };
        // Object pool: every setter mutates the object it is called on AND returns a clone; JS code
        // may go on with either. All objects stay alive; each has its own model settings. A call
        // names the object it is made on ("on", mapped monotonically; default: the newest object).
        let mut objs: Vec<(WasmBuilder, Cfg)> = vec![(original, Cfg::default())];
        for call in &calls {
            let n = objs.len();
            let ti = match call.get("on").and_then(|v| v.as_u64()) {
                Some(o) => ((o as usize & 0xffff) * n) >> 16,
                None => {
                    // legacy form: use_clone=false means "keep calling the object used before"
                    if call.get("use_clone").and_then(|v| v.as_bool()).unwrap_or(true) { n - 1 } else { n.saturating_sub(2).min(n - 1) }
                }
            };
            if call.get("build").is_some() {
                let got = objs[ti].0.build();
                let want = build(&strings, &objs[ti].1).map_err(build_err)?;
                if got != want {
                    return Err(format!("an intermediate build() on object #{} returned {:?}; the library builds {:?} for {:?} with [{}]", ti, got, want, strings, objs[ti].1.tag()));
                }
                continue;
            }
            let (target, model) = {
                let (a, b) = &mut objs[ti];
                (a, b)
            };
            let returned: WasmBuilder = if let Some(i) = call.get("flag").and_then(|v| v.as_u64()) {
                let i = i as usize % 15;
                let name = FLAG_NAMES[i];
                let r = match name {
                    "digits" => target.withConversionOfDigits(),
                    "non_digits" => target.withConversionOfNonDigits(),
                    "spaces" => target.withConversionOfWhitespace(),
                    "non_spaces" => target.withConversionOfNonWhitespace(),
                    "words" => target.withConversionOfWords(),
                    "non_words" => target.withConversionOfNonWords(),
                    "repetitions" => target.withConversionOfRepetitions(),
                    "ignore_case" => target.withCaseInsensitiveMatching(),
                    "capture" => target.withCapturingGroups(),
                    "verbose" => target.withVerboseMode(),
                    "no_start" => target.withoutStartAnchor(),
                    "no_end" => target.withoutEndAnchor(),
                    "escape" => target.withEscapingOfNonAsciiChars(false),
                    "surrogates" => target.withEscapingOfNonAsciiChars(true),
                    _ => target.withoutAnchors(), // "colour" has no wasm setter: use withoutAnchors
                };
                match name {
                    "escape" => {
                        model.escape = true;
                        model.surrogates = false;
                    }
                    "surrogates" => {
                        model.escape = true;
                        model.surrogates = true;
                    }
                    "colour" => {
                        model.no_start = true;
                        model.no_end = true;
                    }
                    _ => *model.flag_mut(i) = true,
                }
                r
            } else if let Some(nv) = call.get("minrep").and_then(|v| v.as_u64()) {
                match target.withMinimumRepetitions(nv as u32) {
                    Ok(b) => {
                        if nv == 0 {
                            return Err("withMinimumRepetitions(0) succeeded".into());
                        }
                        model.min_rep = nv as u32;
                        b
                    }
                    Err(e) => {
                        if nv == 0 && err_text(&e) == MSG_MINREP {
                            continue;
                        }
                        return Err(format!("withMinimumRepetitions({}) returned Err({:?})", nv, e));
                    }
                }
            } else if let Some(nv) = call.get("minlen").and_then(|v| v.as_u64()) {
                match target.withMinimumSubstringLength(nv as u32) {
                    Ok(b) => {
                        if nv == 0 {
                            return Err("withMinimumSubstringLength(0) succeeded".into());
                        }
                        model.min_len = nv as u32;
                        b
                    }
                    Err(e) => {
                        if nv == 0 && err_text(&e) == MSG_MINLEN {
                            continue;
                        }
                        return Err(format!("withMinimumSubstringLength({}) returned Err({:?})", nv, e));
                    }
                }
            } else {
                continue;
            };
            let m = objs[ti].1.clone();
            if objs.len() < 10 {
                objs.push((returned, m));
            } else {
                let last = objs.len() - 1;
                objs[last] = (returned, m);
            }
        }
        // every object that is still alive must build what the library builds for ITS settings
        for (k, (obj, model)) in objs.iter_mut().enumerate() {
            let want = build(&strings, model).map_err(build_err)?;
            let got = obj.build();
            if got != want {
                return Err(format!("object #{} of {} built {:?}; the library builds {:?} for {:?} with [{}]", k, calls.len(), got, want, strings, model.tag()));
            }
            let again = obj.build();
            if again != want {
                return Err(format!("object #{}: a second build() returned {:?} after {:?}", k, again, got));
            }
        }
        Ok(())
    });
    match r {
        Ok(r) => r,
        Err(m) => Err(format!("the wrapper panicked (would trap in WebAssembly): {}", m)),
    }
}

fn calls_strategy() -> BoxedStrategy<Value> {
    // "on": which live object the call is made on (0xffff = newest, i.e. plain chaining)
    let on = || prop_oneof![3 => Just(0xffffu64), 2 => 0u64..0x10000];
    let call = prop_oneof![
        8 => (0u64..15, on()).prop_map(|(i, o)| json!({"flag": i, "on": o})),
        1 => (0u64..5, on()).prop_map(|(n, o)| json!({"minrep": n, "on": o})),
        1 => (0u64..5, on()).prop_map(|(n, o)| json!({"minlen": n, "on": o})),
        2 => on().prop_map(|o| json!({"build": true, "on": o})),
    ];
    vec(call, 0..10).prop_map(Value::Array).boxed()
}

fn run(ctx: &mut Ctx) {
    let root = crate::root();
    let reg: Vec<Case> = regress_cases(&root, "C17").into_iter().map(|(_, c)| c).collect();
    ctx.fixed("regress", &reg, &case_fn);

    // error cases
    let mut errs = vec![];
    for js in [json!([]), json!(["undefined"]), json!(["null", true, 3.5]), json!([false, "undefined"])] {
        let mut c = Case::new(vec![], Cfg::default());
        c.extra = json!({"js": js, "calls": []});
        errs.push(c);
    }
    for calls in [json!([{"minrep": 0}]), json!([{"minlen": 0}]), json!([{"flag": 6}, {"minrep": 0, "use_clone": false}, {"minrep": 3}])] {
        let mut c = Case::new(vec!["aaa".into(), "aaaa".into()], Cfg::default());
        c.extra = json!({"calls": calls});
        errs.push(c);
    }
    ctx.fixed("errors", &errs, &case_fn);

    // every single setter, alone, on a fixed input (exhaustive over the 15+2 setters)
    let mut singles = vec![];
    for i in 0..15u64 {
        for use_clone in [true, false] {
            let mut c = Case::new(vec!["aa1 ".into(), "aa1 A💩".into(), "b".into()], Cfg::default());
            c.extra = json!({"calls": [{"flag": i, "use_clone": use_clone}]});
            singles.push(c);
        }
    }
    for k in ["minrep", "minlen"] {
        let mut c = Case::new(vec!["aaaa".into(), "abababab".into()], Cfg::default());
        c.extra = json!({"calls": [{"flag": 6}, {k: 3}]});
        singles.push(c);
    }
    ctx.fixed("single-setters", &singles, &case_fn);

    let total = ctx.tier.pick(40_000, 600_000);
    let strat = move || {
        (program_strategy(ALL_POOLS, true, W_DEFAULT, 5, 4), calls_strategy(), vec(prop_oneof![6 => Just(0u8), 1 => Just(1u8), 1 => Just(2u8), 1 => Just(3u8), 1 => Just(4u8)], 0..8))
            .prop_map(|(p, calls, shape)| {
                let tcs = p.interpret();
                // interleave strings with non-strings according to `shape`
                let mut js: Vec<Value> = vec![];
                let mut si = 0usize;
                for s in &shape {
                    match s {
                        0 => {
                            if si < tcs.len() {
                                js.push(json!({"s": si}));
                                si += 1;
                            }
                        }
                        1 => js.push(json!("undefined")),
                        2 => js.push(json!("null")),
                        3 => js.push(json!(true)),
                        _ => js.push(json!(42.5)),
                    }
                }
                while si < tcs.len() && shape.len() % 3 != 0 {
                    js.push(json!({"s": si}));
                    si += 1;
                }
                let mut c = Case::new(tcs, Cfg::default());
                c.extra = json!({"pool": p.pool_name(), "js": js, "calls": calls});
                c
            })
            .boxed()
    };
    ctx.generated("gen", &strat, total, &|s, c, st| {
        count_pool(c, st);
        case_fn(s, c, st)
    });
    let _ = Tier::Quick;
}
