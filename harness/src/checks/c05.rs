//! C05 Repetition conversion never changes what the regex matches.

use super::common::*;
use super::Check;
use crate::astx::census;
use crate::cfg::{build, build_with_stages, Case, Cfg};
use crate::gen::*;
use crate::runner::{Ctx, Stats, Tier};
use proptest::prelude::*;
use serde_json::json;

pub const CHECK: Check = Check {
    id: "C05",
    run,
    case_fn,
    rule: "cases = (test-case list rich in repeats, settings with -r and thresholds, optional class/-i/-e/-x/-g). Two oracles per case: differential L(build with -r) = L(build without -r) (pattern vs pattern, symbolic) and absolute L(build with -r) = specification. Non-trivial = the -r output contains a counted quantifier {n}/{m,n} (from the AST) and there are at least 2 distinct test cases. Distinct = hash of (test cases, settings).",
    assumptions: &[
        "KF-merge (trie insertion merges v{a,b} with v{b+1} regardless of what follows) is tolerated only when the hook snapshots show: clusters faithful, L(trie) a strict superset of L(clusters), a trie edge with min<max, all later stages faithful",
    ],
};

pub fn case_fn(_sub: &str, case: &Case, stats: &mut Stats) -> Result<(), String> {
    let mut cfg = case.cfg.clone();
    cfg.repetitions = true;
    if !cfg.regex_crate() {
        return Ok(());
    }
    stats.eval();
    let (p_r, stages) = build_with_stages(&case.tcs, &cfg).map_err(build_err)?;
    let mut plain = cfg.clone();
    plain.repetitions = false;
    let p_n = build(&case.tcs, &plain).map_err(build_err)?;
    let counted = census(&p_r).map(|c| c.counted.len()).unwrap_or(0);
    if counted > 0 && distinct_count(&case.tcs) >= 2 {
        stats.nontrivial(case.key());
    }
    stats.class(if counted > 0 { "quantified" } else { "no-quantifier" });
    stats.class(&format!("thresholds={},{}", cfg.min_rep.min(9), cfg.min_len.min(9)));
    stats.sample(|| json!({"tcs": case.tcs, "cfg": cfg.tag(), "with_r": p_r, "without_r": p_n}));
    // absolute: vs specification (known findings classified by stage)
    let j = judge_case("C05", case, &cfg, &p_r, Some(&stages), stats)?;
    let explained = matches!(j.as_ref().map(|j| &j.verdict), Some(crate::spec::Verdict::Explained { .. }));
    // differential: pattern vs pattern
    match pattern_diff(&p_r, &p_n) {
        Ok(None) => Ok(()),
        Ok(Some((w, only_r))) => {
            if explained {
                // the same, already classified and listed difference (counted above)
                Ok(())
            } else {
                // -r equals the spec but differs from the plain build: the plain build is off
                let jn = judge_case("C05", case, &plain, &p_n, None, stats)?;
                if matches!(jn.as_ref().map(|j| &j.verdict), Some(crate::spec::Verdict::Explained { .. })) {
                    return Ok(());
                }
                Err(format!(
                    "with -r {:?} and without -r {:?} differ on {:?} (accepted only {})",
                    p_r, p_n, w, if only_r { "with -r" } else { "without -r" }
                ))
            }
        }
        Err(e) => {
            stats.inconclusive(&e, || json!({"tcs": case.tcs, "with_r": p_r, "without_r": p_n}));
            Ok(())
        }
    }
}

fn fix(mut c: Cfg) -> Cfg {
    c.colour = false;
    c.surrogates = false;
    c.no_start = false;
    c.no_end = false;
    c.repetitions = true;
    if c.min_rep > 6 && c.min_rep != 17 {
        c.min_rep = 1;
    }
    if c.min_len > 6 && c.min_len != 17 {
        c.min_len = 1;
    }
    c
}

fn thresholds() -> Vec<(u32, u32)> {
    let mut v = vec![];
    for a in 1..=4 {
        for b in 1..=4 {
            v.push((a, b));
        }
    }
    v.push((17, 1));
    v.push((1, 17));
    v
}

fn run(ctx: &mut Ctx) {
    let root = crate::root();
    let reg: Vec<Case> = regress_cases(&root, "C05").into_iter().map(|(_, c)| c).collect();
    ctx.fixed("regress", &reg, &case_fn);

    let th = thresholds();
    let nt = th.len() as u64;
    let mk = |t: (u32, u32)| {
        let mut c = Cfg::default();
        c.repetitions = true;
        c.min_rep = t.0;
        c.min_len = t.1;
        c
    };
    let u3a = Universe::u3a();
    ctx.exhaustive("U3a x thresholds", u3a.subset_count() * nt, &|i| Case::new(u3a.subset(i / nt + 1), mk(th[(i % nt) as usize])), &case_fn);
    let u3b = Universe::u3b();
    let th_q: Vec<(u32, u32)> = match ctx.tier {
        Tier::Quick => vec![(1, 1), (2, 1), (1, 2), (2, 2), (3, 1)],
        Tier::Thorough => th.clone(),
    };
    let ntq = th_q.len() as u64;
    ctx.exhaustive("U3b x thresholds", u3b.subset_count() * ntq, &|i| Case::new(u3b.subset(i / ntq + 1), mk(th_q[(i % ntq) as usize])), &case_fn);
    {
        // seeded sample of the 2^31 subsets of {a,b}^<=4 with -r (words up to length 4 are what F18
        // needed); small sets are the interesting ones, so masks are ANDed to thin them out
        let n4 = Universe::u4().subset_count();
        let strat = move || {
            (1..=n4, 1..=n4, 1..=n4)
                .prop_map(move |(m1, m2, m3)| {
                    let m = m1 & m2 & m3;
                    Case::new(Universe::u4().subset(if m == 0 { m1 } else { m }), mk((1, 1)))
                })
                .boxed()
        };
        ctx.generated("U4-sample -r", &strat, ctx.tier.pick(20_000, 400_000), &case_fn);
    }
    if ctx.tier == Tier::Thorough {
        let s4 = SmallSubsets::abc3(4);
        ctx.exhaustive("abc3 subsets <=4 -r", s4.count(), &|i| Case::new(s4.subset(i), mk((1, 1))), &case_fn);
    }
    // every single test case over {a,b} up to length 12 (quick: 11) and over {a,b,c} up to length 8
    // (quick: 7): the -r pattern of ONE string must denote exactly that string
    let singles: Vec<String> = {
        let mut v = Universe::words(&["a", "b"], ctx.tier.pick(11, 12));
        v.extend(Universe::words(&["a", "b", "c"], ctx.tier.pick(7, 8)).into_iter().filter(|w| w.contains('c')));
        v
    };
    let sth: Vec<(u32, u32)> = vec![(1, 1), (2, 1), (1, 2), (2, 2), (3, 1), (1, 3)];
    let nst = ctx.tier.pick(3u64, 6);
    ctx.exhaustive("single test cases x thresholds", singles.len() as u64 * nst, &|i| Case::new(vec![singles[(i / nst) as usize].clone()], mk(sth[(i % nst) as usize])), &case_fn);
    let urep = Universe::rep_families();
    ctx.exhaustive("Urep x {(1,1),(2,1)}", urep.subset_count() * 2, &|i| Case::new(urep.subset(i / 2 + 1), mk(if i % 2 == 0 { (1, 1) } else { (2, 1) })), &case_fn);
    let u1 = Universe::u1();
    ctx.exhaustive("U1 -r", u1.subset_count(), &|i| Case::new(u1.subset(i + 1), mk((1, 1))), &case_fn);
    if ctx.tier == Tier::Thorough {
        let u2 = Universe::u2();
        ctx.exhaustive("U2 -r", u2.subset_count() * 2, &|i| Case::new(u2.subset(i / 2 + 1), mk(if i % 2 == 0 { (1, 1) } else { (2, 1) })), &case_fn);
    }

    let total = ctx.tier.pick(30_000, 600_000);
    let max_ops = ctx.tier.pick(5, 10);
    let strat = move || case_strategy(&["repeat", "abc", "abc", "digits", "meta", "marks", "boundary", "clusters", "cased", "lookalike", "metamod"], true, W_REPEAT, max_ops, 7, fix);
    ctx.generated("gen", &strat, total, &|s, c, st| {
        count_pool(c, st);
        case_fn(s, c, st)
    });
    let total_large = ctx.tier.pick(5000, 100000);
    let strat_large = move || case_strategy_large(&["repeat", "abc", "abc", "digits", "meta", "marks", "boundary", "clusters", "cased", "lookalike", "metamod"], W_REPEAT, fix);
    ctx.generated("gen-large", &strat_large, total_large, &|s, c, st| {
        count_pool(c, st);
        case_fn(s, c, st)
    });
    if ctx.tier == crate::runner::Tier::Thorough {
        ctx.fuzz_campaign("fuzz_lang", 8000);
    }
}
