pub mod common;
pub mod c01;
pub mod c02;
pub mod c03;
pub mod c04;
pub mod c05;
pub mod c06;
pub mod c07;
pub mod c08;
pub mod c09;
pub mod c10;
pub mod c11;
pub mod c12;
pub mod c15;
pub mod c16;
pub mod c17;
pub mod c13;
pub mod c14;

use crate::cfg::Case;
use crate::runner::{Ctx, Stats};

pub struct Check {
    pub id: &'static str,
    pub run: fn(&mut Ctx),
    pub case_fn: fn(&str, &Case, &mut Stats) -> Result<(), String>,
    pub rule: &'static str,
    pub assumptions: &'static [&'static str],
}

pub fn all() -> Vec<Check> {
    vec![c01::CHECK, c02::CHECK, c03::CHECK, c04::CHECK, c05::CHECK, c06::CHECK, c07::CHECK, c08::CHECK, c09::CHECK, c10::CHECK, c11::CHECK, c12::CHECK, c15::CHECK, c16::CHECK, c17::CHECK, c13::CHECK, c14::CHECK]
}

/// Oracles run inside the libFuzzer targets (and when an artifact is replayed). Returns the
/// property, sub-check and message of the first violated oracle.
pub fn fuzz_oracle(target: &str, case: &Case, st: &mut Stats) -> Result<(), (&'static str, String, String)> {
    let run = |id: &'static str, f: fn(&str, &Case, &mut Stats) -> Result<(), String>, st: &mut Stats| {
        f("fuzz", case, st).map_err(|m| (id, "fuzz".to_string(), m))
    };
    match target {
        "fuzz_build" => {
            run("C07", c07::case_fn, st)?;
            if case.cfg.regex_crate() {
                run("C01", c01::case_fn, st)?;
            }
            run("C15", c15::case_fn, st)?;
            Ok(())
        }
        _ => {
            // fuzz_lang: the language-level oracles
            let mut c = case.clone();
            c.cfg.colour = false;
            c.cfg.surrogates = false;
            let case = &c;
            let run = |id: &'static str, f: fn(&str, &Case, &mut Stats) -> Result<(), String>, st: &mut Stats| {
                f("fuzz", case, st).map_err(|m| (id, "fuzz".to_string(), m))
            };
            if case.cfg.flag_count() == 0 {
                run("C02", c02::case_fn, st)?;
            }
            if case.cfg.classes() && !case.cfg.no_start && !case.cfg.no_end {
                run("C03", c03::case_fn, st)?;
            }
            if case.cfg.repetitions && !case.cfg.no_start && !case.cfg.no_end {
                run("C05", c05::case_fn, st)?;
                run("C13", c13::case_fn, st)?;
            }
            run("C08", c08::case_fn, st)?;
            run("C16", c16::case_fn, st)?;
            Ok(())
        }
    }
}
