pub mod common;
pub mod c01;
pub mod c02;
pub mod c03;
pub mod c04;
pub mod c05;
pub mod c06;
pub mod c07;
pub mod c08;
pub mod c09;
pub mod c10;
pub mod c11;
pub mod c12;
pub mod c15;
pub mod c16;
pub mod c17;
pub mod c13;
pub mod c14;

use crate::cfg::Case;
use crate::runner::{Ctx, Stats};

pub struct Check {
    pub id: &'static str,
    pub run: fn(&mut Ctx),
    pub case_fn: fn(&str, &Case, &mut Stats) -> Result<(), String>,
    pub rule: &'static str,
    pub assumptions: &'static [&'static str],
}

pub fn all() -> Vec<Check> {
    vec![c01::CHECK, c02::CHECK, c03::CHECK, c04::CHECK, c05::CHECK, c06::CHECK, c07::CHECK, c08::CHECK, c09::CHECK, c10::CHECK, c11::CHECK, c12::CHECK, c15::CHECK, c16::CHECK, c17::CHECK, c13::CHECK, c14::CHECK]
}
