pub mod common;
pub mod c01;
pub mod c02;
pub mod c03;
pub mod c04;
pub mod c05;
pub mod c06;
pub mod c07;
pub mod c08;
pub mod c09;
pub mod c10;
pub mod c11;
pub mod c12;
pub mod c15;
pub mod c16;
pub mod c17;
pub mod c13;
pub mod c14;

use crate::cfg::Case;
use crate::runner::{Ctx, Stats};

pub struct Check {
    pub id: &'static str,
    pub run: fn(&mut Ctx),
    pub case_fn: fn(&str, &Case, &mut Stats) -> Result<(), String>,
    pub rule: &'static str,
    pub assumptions: &'static [&'static str],
}

pub fn all() -> Vec<Check> {
    vec![c01::CHECK, c02::CHECK, c03::CHECK, c04::CHECK, c05::CHECK, c06::CHECK, c07::CHECK, c08::CHECK, c09::CHECK, c10::CHECK, c11::CHECK, c12::CHECK, c15::CHECK, c16::CHECK, c17::CHECK, c13::CHECK, c14::CHECK]
}

/// Oracles run inside the libFuzzer targets (and when an artifact is replayed). `GV_FUZZ_PROPS`
/// (comma separated ids) restricts which properties' oracles run, so that a campaign started by
/// the check of property X only ever reports violations of X. Returns the property, sub-check and
/// message of the first violated oracle.
pub fn fuzz_oracle(target: &str, case: &Case, st: &mut Stats, only: Option<&str>) -> Result<(), (&'static str, String, String)> {
    let filter: Option<Vec<String>> = only.map(|s| s.split(',').map(|x| x.trim().to_string()).collect());
    let wanted = |id: &str| filter.as_ref().map_or(true, |f| f.iter().any(|x| x == id));
    // language-level oracles are defined for regex-crate configurations only
    let mut lang = case.clone();
    lang.cfg.colour = false;
    lang.cfg.surrogates = false;
    let anchored = !case.cfg.no_start && !case.cfg.no_end;
    let plan: Vec<(&'static str, bool, fn(&str, &Case, &mut Stats) -> Result<(), String>, &Case)> = if target == "fuzz_build" {
        vec![
            ("C07", true, c07::case_fn, case),
            ("C01", case.cfg.regex_crate(), c01::case_fn, case),
            ("C15", true, c15::case_fn, case),
            ("C11", case.cfg.escape, c11::case_fn, case),
        ]
    } else {
        vec![
            ("C02", case.cfg.flag_count() == 0, c02::case_fn, &lang),
            ("C03", lang.cfg.classes() && anchored, c03::case_fn, &lang),
            ("C05", lang.cfg.repetitions && anchored, c05::case_fn, &lang),
            ("C13", lang.cfg.repetitions && anchored, c13::case_fn, &lang),
            ("C06", anchored, c06::case_fn, &lang),
            ("C08", true, c08::case_fn, &lang),
            ("C16", true, c16::case_fn, &lang),
        ]
    };
    for (id, applicable, f, c) in plan {
        // without a filter the expensive 8-build oracle of C06 and C11 are skipped
        let default_on = id != "C06" && id != "C11";
        let on = if filter.is_some() { wanted(id) } else { default_on };
        if on && applicable {
            f("fuzz", c, st).map_err(|m| (id, "fuzz".to_string(), m))?;
        }
    }
    Ok(())
}
