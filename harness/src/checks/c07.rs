//! C07 build() is total and always returns a syntactically valid regex.

use super::common::*;
use super::Check;
use crate::cfg::{build, guarded, Case, Cfg};
use crate::gen::*;
use crate::runner::{Ctx, Stats, Tier};
use grex::RegExpBuilder;
use proptest::prelude::*;
use serde_json::json;
use std::io::Read;
use std::process::{Command, Stdio};
use std::time::{Duration, Instant};

pub const CHECK: Check = Check {
    id: "C07",
    run,
    case_fn,
    rule: "cases = (test-case list, any of the 2^15 boolean settings incl. surrogates and colour, thresholds incl. 1000 and u32::MAX). Oracle: build() returns (no panic, no abort) and, unless surrogates or colour are on, the regex crate accepts the output; the three documented panics happen with exactly the documented messages. Full 2^15 lattice enumerated on fixed inputs; large inputs (prefix chains, long test cases, periodic with -r, thousands of test cases) run in child processes under a watchdog. Non-trivial = at least 3 flags, or surrogates/colour/disabled anchors, and the input contains a metacharacter, a backslash or a multi-code-point cluster. Distinct = hash of (test cases, settings).",
    assumptions: &[
        "resource limits are not the property: very large valid patterns are compiled with raised size/nest limits",
        "a watchdog timeout on a large input is counted as inconclusive, never as a violation",
    ],
};

pub const MSG_EMPTY: &str = "No test cases have been provided for regular expression generation";
pub const MSG_MINREP: &str = "Quantity of minimum repetitions must be greater than zero";
pub const MSG_MINLEN: &str = "Minimum substring length must be greater than zero";

fn compiles(pattern: &str, big: bool) -> Result<(), String> {
    let r = if big {
        regex::RegexBuilder::new(pattern).size_limit(1 << 30).dfa_size_limit(1 << 26).nest_limit(1_000_000).build()
    } else {
        return crate::lang::compile_regex(pattern).map(|_| ());
    };
    r.map(|_| ()).map_err(|e| e.to_string().lines().last().unwrap_or("").to_string())
}

pub fn case_fn(sub: &str, case: &Case, stats: &mut Stats) -> Result<(), String> {
    if let Some(r) = replay_big(case, stats) {
        return r;
    }
    let cfg = &case.cfg;
    stats.eval();
    if let Some(kind) = case.extra.get("documented_panic").and_then(|v| v.as_str()) {
        stats.nontrivial(case.key());
        let (res, want) = match kind {
            "empty" => (guarded(|| { RegExpBuilder::from::<String>(&[]); }), MSG_EMPTY),
            "minrep0" => (guarded(|| { RegExpBuilder::from(&case.tcs).with_minimum_repetitions(0); }), MSG_MINREP),
            "minlen0" => (guarded(|| { RegExpBuilder::from(&case.tcs).with_minimum_substring_length(0); }), MSG_MINLEN),
            other => return Err(format!("unknown documented_panic kind {}", other)),
        };
        return match res {
            Ok(()) => Err(format!("documented panic '{}' did not happen", kind)),
            Err(m) if m == want => Ok(()),
            Err(m) => Err(format!("documented panic '{}' has message {:?}, expected {:?}", kind, m, want)),
        };
    }
    let special = cfg.flag_count() >= 3 || cfg.surrogates || cfg.colour || cfg.no_start || cfg.no_end;
    if special && (has_meta(&case.tcs) || has_multi_cp_cluster(&case.tcs)) {
        stats.nontrivial(case.key());
    }
    if sub == "gen" {
        stats.class(&format!("flags={}", cfg.flag_count().min(8)));
        if cfg.surrogates { stats.class("surrogates"); }
        if cfg.colour { stats.class("colour"); }
        if cfg.no_start && cfg.no_end { stats.class("no-anchors"); }
    }
    let pattern = build(&case.tcs, cfg).map_err(|m| format!("build() panicked: {}", m))?;
    stats.sample(|| json!({"tcs": case.tcs, "cfg": cfg.tag(), "pattern": pattern}));
    if cfg.regex_crate() {
        if let Err(e) = compiles(&pattern, false) {
            if e.starts_with("RESOURCE") {
                stats.inconclusive("pattern too big for the engine even with raised limits", || json!({"tcs": case.tcs, "cfg": cfg.tag()}));
                return Ok(());
            }
            return Err(format!("pattern {:?} is rejected by the regex crate: {}", pattern, e));
        }
    }
    Ok(())
}

// ---- large inputs in child processes ---------------------------------------------------------

pub fn big_input(kind: &str, n: usize) -> (Vec<String>, Cfg) {
    let mut cfg = Cfg::default();
    let tcs = match kind {
        "chain" => (1..=n).map(|k| "a".repeat(k)).collect(),
        "long2" => {
            let a: String = (0..n).map(|i| ["x", "y", "é", "💩", "."][i % 5]).collect();
            let mut b = a.clone();
            b.push('z');
            vec![a, b]
        }
        "periodic" => {
            cfg.repetitions = true;
            vec!["ab".repeat(n / 2), format!("{}c", "ab".repeat(n / 4))]
        }
        "many" => (0..n).map(|i| format!("{:x}", i * 2654435761usize % 1000003)).collect(),
        "many-i-x" => {
            cfg.ignore_case = true;
            cfg.verbose = true;
            (0..n).map(|i| format!("K{:x}", i * 40503 % 65521)).collect()
        }
        "long-class-noend" => {
            // one long test case + class conversion + end anchor disabled: the internal self-check
            // has to compile \w x n
            cfg.words = true;
            cfg.no_end = true;
            vec!["ab".repeat(n / 2)]
        }
        "long-class-noanchors-r" => {
            cfg.digits = true;
            cfg.repetitions = true;
            cfg.no_start = true;
            cfg.no_end = true;
            vec!["7".repeat(n), format!("{}x", "7".repeat(n / 2))]
        }
        "chain-noend" => {
            // prefix chain with the end anchor disabled: the internal self-check has to compile an
            // expression nested deeper than the regex crate's default nesting limit
            cfg.no_end = true;
            let base: Vec<char> = "abcde".chars().cycle().take(n).collect();
            (1..=n).map(|k| base[..k].iter().collect()).collect()
        }
        "chain-noanchors-ix" => {
            cfg.no_end = true;
            cfg.no_start = true;
            cfg.ignore_case = true;
            cfg.verbose = true;
            let base: Vec<char> = "aBcDe".chars().cycle().take(n).collect();
            (1..=n).map(|k| base[..k].iter().collect()).collect()
        }
        "noanchors" => {
            cfg.no_start = true;
            cfg.no_end = true;
            (0..n).map(|i| format!("{:b}", i)).collect()
        }
        _ => vec!["a".to_string()],
    };
    (tcs, cfg)
}

/// Child side: `gv big <kind> <n>` prints one line: OK <len> | PANIC <msg> | INVALID <msg>
pub fn big_main(kind: &str, n: usize) -> i32 {
    let (tcs, cfg) = big_input(kind, n);
    match build(&tcs, &cfg) {
        Err(m) => {
            println!("PANIC {}", m);
            3
        }
        // the regex crate's own parser/compiler recurse over the nesting depth; give THEM a big stack
        // so that a stack overflow in this child can only come from grex's build() above
        Ok(p) => match std::thread::Builder::new()
            .stack_size(3 << 30)
            .spawn(move || {
                let r = compiles(&p, true);
                (p.len(), r)
            })
            .unwrap()
            .join()
            .map(|(len, r)| r.map(|_| len))
            .unwrap_or_else(|_| Err("harness: compile thread died".into()))
        {
            Ok(len) => {
                println!("OK {}", len);
                0
            }
            Err(e) => {
                println!("INVALID {}", e);
                4
            }
        },
    }
}

fn run_big(kind: &str, n: usize, timeout: Duration, stats: &mut Stats) -> Result<(), String> {
    stats.eval();
    stats.nontrivial(crate::cfg::Case::new(vec![format!("{}:{}", kind, n)], Cfg::default()).key());
    stats.class(&format!("big={}", kind));
    let exe = std::env::current_exe().map_err(|e| e.to_string())?;
    let mut child = Command::new(exe)
        .args(["big", kind, &n.to_string()])
        .stdin(Stdio::null())
        .stdout(Stdio::piped())
        .stderr(Stdio::null())
        .env("RUST_BACKTRACE", "0")
        .spawn()
        .map_err(|e| format!("spawn: {}", e))?;
    let t0 = Instant::now();
    loop {
        match child.try_wait() {
            Ok(Some(status)) => {
                let mut out = String::new();
                if let Some(mut o) = child.stdout.take() {
                    let _ = o.read_to_string(&mut out);
                }
                let line = out.lines().next().unwrap_or("").to_string();
                use std::os::unix::process::ExitStatusExt;
                if let Some(sig) = status.signal() {
                    if sig == 9 {
                        stats.inconclusive("big input: child killed (SIGKILL, memory?)", || json!({"kind": kind, "n": n}));
                        return Ok(());
                    }
                    return Err(format!("build() on large input {}:{} died with signal {}", kind, n, sig));
                }
                return match status.code() {
                    Some(0) => Ok(()),
                    Some(3) => Err(format!("build() panicked on large input {}:{}: {}", kind, n, line)),
                    Some(4) => Err(format!("large input {}:{} produced a pattern rejected by the regex crate: {}", kind, n, line)),
                    other => Err(format!("large input {}:{}: child exit {:?} {}", kind, n, other, line)),
                };
            }
            Ok(None) => {
                if t0.elapsed() > timeout {
                    let _ = child.kill();
                    let _ = child.wait();
                    stats.inconclusive("big input: watchdog timeout", || json!({"kind": kind, "n": n}));
                    return Ok(());
                }
                std::thread::sleep(Duration::from_millis(20));
            }
            Err(e) => return Err(format!("wait: {}", e)),
        }
    }
}

fn run(ctx: &mut Ctx) {
    let root = crate::root();
    let reg: Vec<Case> = regress_cases(&root, "C07").into_iter().map(|(_, c)| c).collect();
    ctx.fixed("regress", &reg, &case_fn);

    // documented panics, and thresholds that must NOT panic
    let mut fixed = vec![];
    for k in ["empty", "minrep0", "minlen0"] {
        let mut c = Case::new(vec!["a".into()], Cfg::default());
        c.extra = json!({"documented_panic": k});
        fixed.push(c);
    }
    for (mr, ml) in [(u32::MAX, 1), (1, u32::MAX), (u32::MAX, u32::MAX), (1000, 1000), (2, 1)] {
        let mut cfg = Cfg::default();
        cfg.repetitions = true;
        cfg.min_rep = mr;
        cfg.min_len = ml;
        fixed.push(Case::new(vec!["aaaa".into(), "abababab".into(), "".into()], cfg));
    }
    ctx.fixed("documented-panics+thresholds", &fixed, &case_fn);

    // the full 2^15 lattice on fixed inputs
    let inputs: Vec<Vec<String>> = vec![
        vec!["a".into()],
        vec!["".into(), "a".into()],
        vec!["ab".into(), "a💩b".into(), "\\".into(), "a b#".into()],
        vec!["aaa".into(), "aa".into(), "ababab".into()],
        vec!["💩".into(), "💩💩💩".into(), "1 \u{2003}x".into()],
        vec!["(a)".into(), "[b]|".into(), "^$".into(), "Ab".into(), "aB".into()],
    ];
    let ni = match ctx.tier {
        Tier::Quick => 3,
        Tier::Thorough => inputs.len(),
    } as u64;
    let off = if ctx.tier == Tier::Quick { ctx.seed % 2 * 3 } else { 0 };
    ctx.exhaustive("lattice-2^15", 32768 * ni, &|i| {
        let cfg = Cfg::from_mask((i % 32768) as u32);
        Case::new(inputs[((i / 32768 + off) as usize) % inputs.len()].clone(), cfg)
    }, &case_fn);

    // small sets exhaustively (validity of the default-settings output on every set of up to 4 words
    // of {a,b,c}^{1..3}; 5-word sets: a seeded quarter in quick, all in thorough)
    let s5 = SmallSubsets::abc3(5);
    let s4n = SmallSubsets::abc3(4).count();
    let n5 = s5.count() - s4n;
    let (step, off) = match ctx.tier {
        Tier::Quick => (4u64, ctx.seed % 4),
        Tier::Thorough => (1u64, 0),
    };
    ctx.exhaustive("abc3 subsets <=4", s4n, &|i| Case::new(s5.subset(i), Cfg::default()), &case_fn);
    ctx.exhaustive("abc3 5-subsets", n5 / step, &|i| Case::new(s5.subset(s4n + (i * step + off).min(n5 - 1)), Cfg::default()), &case_fn);

    // many (21..=40) short test cases over letters whose lower-casing is refused (İ) or special, under
    // -i: sorting / de-duplication code paths that only run for more than 20 elements
    let total_many = ctx.tier.pick(40_000, 600_000);
    let strat_many = move || {
        use proptest::collection::vec;
        (vec(vec(0u8..7, 2..=3usize), 21..=40), cfg_strategy())
            .prop_map(|(ws, cfg)| {
                let letters = ['İ', 'i', 'I', 'a', 'A', 'ı', 'b'];
                let tcs: Vec<String> = ws.iter().map(|w| w.iter().map(|&i| letters[i as usize]).collect()).collect();
                let mut cfg = cfg;
                cfg.ignore_case = true;
                if !cfg.escape {
                    cfg.surrogates = false;
                }
                let mut c = Case::new(tcs, cfg);
                c.extra = json!({"pool": "many-case"});
                c
            })
            .boxed()
    };
    ctx.generated("many-case", &strat_many, total_many, &|s, c, st| case_fn(s, c, st));

    // generated, all flags free
    let total = ctx.tier.pick(60_000, 1_500_000);
    let max_ops = ctx.tier.pick(6, 12);
    let strat = move || case_strategy(ALL_POOLS, true, W_DEFAULT, max_ops, 7, |c| c);
    ctx.generated("gen", &strat, total, &|s, c, st| {
        count_pool(c, st);
        case_fn(s, c, st)
    });

    // large inputs
    if ctx.failures.is_empty() {
        let sizes: Vec<(&str, usize)> = match ctx.tier {
            Tier::Quick => vec![("chain", 120), ("long2", 300), ("periodic", 120), ("many", 1500), ("many-i-x", 600), ("noanchors", 300), ("long-class-noend", 1400), ("long-class-noanchors-r", 1400), ("chain-noend", 130), ("chain-noanchors-ix", 100)],
            Tier::Thorough => vec![("chain", 120), ("chain", 1000), ("chain", 5000), ("long2", 2000), ("periodic", 600), ("many", 5000), ("many-i-x", 3000), ("noanchors", 2000), ("long-class-noend", 1400), ("long-class-noend", 4000), ("long-class-noanchors-r", 3000), ("chain-noend", 130), ("chain-noend", 600), ("chain-noanchors-ix", 300)],
        };
        let timeout = Duration::from_secs(ctx.tier.pick(60, 600));
        let results: Vec<(Stats, Result<(), String>, (&str, usize))> = std::thread::scope(|s| {
            let hs: Vec<_> = sizes
                .iter()
                .map(|&(k, n)| {
                    s.spawn(move || {
                        let mut st = Stats::default();
                        let r = run_big(k, n, timeout, &mut st);
                        (st, r, (k, n))
                    })
                })
                .collect();
            hs.into_iter().map(|h| h.join().unwrap()).collect()
        });
        for (st, r, (k, n)) in results {
            ctx.stats.merge(st);
            if let Err(m) = r {
                let mut c = Case::new(vec![], Cfg::default());
                c.extra = json!({"big": k, "n": n});
                ctx.failures.push(crate::runner::Failure { sub: "big".into(), case: c, message: m });
            }
        }
    }
    let total_cf = ctx.tier.pick(80_000, 1_000_000);
    let strat_cf = move || class_family_strategy(true, |c: Cfg| c);
    ctx.generated("class-family", &strat_cf, total_cf, &|s, c, st| case_fn(s, c, st));
    let total_wide = ctx.tier.pick(120_000, 2_000_000);
    let strat_wide = move || wide_short_strategy(|c: Cfg| c, true);
    ctx.generated("wide-short", &strat_wide, total_wide, &|s, c, st| case_fn(s, c, st));
    let total_large = ctx.tier.pick(8000, 150000);
    let strat_large = move || case_strategy_large(ALL_POOLS, W_DEFAULT, |c: Cfg| c);
    ctx.generated("gen-large", &strat_large, total_large, &|s, c, st| {
        count_pool(c, st);
        case_fn(s, c, st)
    });
    if ctx.tier == crate::runner::Tier::Thorough {
        ctx.fuzz_campaign("fuzz_build", 20000);
    }
}

/// Replay entry for large-input cases.
pub fn replay_big(case: &Case, stats: &mut Stats) -> Option<Result<(), String>> {
    let k = case.extra.get("big")?.as_str()?.to_string();
    let n = case.extra.get("n")?.as_u64()? as usize;
    Some(run_big(&k, n, Duration::from_secs(600), stats))
}
