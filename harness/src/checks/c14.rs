//! C14 Python binding returns the library's pattern in Python escape syntax.

use super::c07::{MSG_EMPTY, MSG_MINLEN, MSG_MINREP};
use super::common::*;
use super::Check;
use crate::cfg::{build, Case, Cfg};
use crate::gen::*;
use crate::runner::{Ctx, Stats, Tier};
use serde_json::{json, Value};
use std::cell::RefCell;
use std::io::{BufRead, BufReader, Write};
use std::process::{Child, ChildStdin, ChildStdout, Command, Stdio};

pub const CHECK: Check = Check {
    id: "C14",
    run,
    case_fn,
    rule: "cases = (test-case list over code points with 2..6 hex digits, any settings except syntax highlighting) executed inside CPython 3.11 through the extension module rebuilt from /repo's working tree (features python + pyo3/extension-module). Oracle: the Python build() result equals an independent rewrite of the in-process Rust build() (each \\u{h..} -> \\uXXXX if <= FFFF else \\UXXXXXXXX); re.compile accepts it; with no shorthand-class option (and no surrogate pairs) re.fullmatch succeeds on every test case, except test cases that are listed known findings (\"\" next to others); RegExpBuilder([]) and thresholds 0 / -1 raise ValueError with the library's messages. Non-trivial = escaping on and a non-ASCII code point present, or verbose with exotic whitespace, or an error call. Distinct = hash of (test cases, settings, call form).",
    assumptions: &["CPython 3.11's re module is the reference for 'compiles' and 'fullmatch'", "surrogate-pair output is compared as a string only (Python strings hold astral characters as one code point)"],
};

struct Driver {
    child: Child,
    stdin: ChildStdin,
    stdout: BufReader<ChildStdout>,
}

impl Drop for Driver {
    fn drop(&mut self) {
        let _ = self.child.kill();
        let _ = self.child.wait();
    }
}

thread_local! {
    static DRIVER: RefCell<Option<Driver>> = const { RefCell::new(None) };
}

fn py_dir() -> String {
    std::env::var("GV_PY_DIR").unwrap_or_else(|_| format!("{}/.target/py", crate::root()))
}

fn python() -> String {
    std::env::var("GV_PYTHON").unwrap_or_else(|_| "python3.11".to_string())
}

fn spawn_driver() -> Result<Driver, String> {
    let mut child = Command::new(python())
        .arg(format!("{}/py/driver.py", crate::root()))
        .arg(py_dir())
        .stdin(Stdio::piped())
        .stdout(Stdio::piped())
        .stderr(Stdio::null())
        .env("RUST_BACKTRACE", "0")
        .env("PYTHONDONTWRITEBYTECODE", "1")
        .spawn()
        .map_err(|e| format!("INFRA cannot start python driver: {}", e))?;
    let stdin = child.stdin.take().unwrap();
    let stdout = BufReader::new(child.stdout.take().unwrap());
    Ok(Driver { child, stdin, stdout })
}

fn ask(req: &Value) -> Result<Value, String> {
    DRIVER.with(|d| {
        let mut d = d.borrow_mut();
        for attempt in 0..2 {
            if d.is_none() {
                *d = Some(spawn_driver()?);
            }
            let drv = d.as_mut().unwrap();
            let line = serde_json::to_string(req).unwrap();
            let ok = drv.stdin.write_all(line.as_bytes()).and_then(|_| drv.stdin.write_all(b"\n")).and_then(|_| drv.stdin.flush());
            let mut out = String::new();
            let got = ok.is_ok() && matches!(drv.stdout.read_line(&mut out), Ok(n) if n > 0);
            if got {
                return serde_json::from_str::<Value>(&out).map_err(|e| format!("INFRA bad driver answer {:?}: {}", out, e));
            }
            // the interpreter died: either the import failed or the extension aborted the process
            *d = None;
            if attempt == 1 {
                return Err("DIED".into());
            }
            // retry once on a fresh interpreter to tell a crash on this case from a stale driver
        }
        unreachable!()
    })
}

/// Independent implementation of the documented mapping.
pub fn rewrite(p: &str) -> String {
    let cs: Vec<char> = p.chars().collect();
    let mut out = String::new();
    let mut i = 0;
    while i < cs.len() {
        if cs[i] == '\\' && i + 1 < cs.len() {
            if cs[i + 1] == 'u' && i + 2 < cs.len() && cs[i + 2] == '{' {
                if let Some(j) = (i + 3..cs.len()).find(|&j| cs[j] == '}') {
                    let hex: String = cs[i + 3..j].iter().collect();
                    if let Ok(v) = u32::from_str_radix(&hex, 16) {
                        if v <= 0xFFFF {
                            out.push_str(&format!("\\u{:04x}", v));
                        } else {
                            out.push_str(&format!("\\U{:08x}", v));
                        }
                        i = j + 1;
                        continue;
                    }
                }
            }
            out.push(cs[i]);
            out.push(cs[i + 1]);
            i += 2;
            continue;
        }
        out.push(cs[i]);
        i += 1;
    }
    out
}

fn calls_for(cfg: &Cfg) -> Vec<Value> {
    let mut v = vec![];
    let mut push = |name: &str, args: Vec<Value>| {
        let mut c = vec![json!(name)];
        c.extend(args);
        v.push(Value::Array(c));
    };
    if cfg.digits { push("with_conversion_of_digits", vec![]); }
    if cfg.non_digits { push("with_conversion_of_non_digits", vec![]); }
    if cfg.spaces { push("with_conversion_of_whitespace", vec![]); }
    if cfg.non_spaces { push("with_conversion_of_non_whitespace", vec![]); }
    if cfg.words { push("with_conversion_of_words", vec![]); }
    if cfg.non_words { push("with_conversion_of_non_words", vec![]); }
    if cfg.repetitions { push("with_conversion_of_repetitions", vec![]); }
    if cfg.ignore_case { push("with_case_insensitive_matching", vec![]); }
    if cfg.capture { push("with_capturing_groups", vec![]); }
    if cfg.escape { push("with_escaping_of_non_ascii_chars", vec![json!(cfg.surrogates)]); }
    if cfg.verbose { push("with_verbose_mode", vec![]); }
    if cfg.no_start && cfg.no_end { push("without_anchors", vec![]); } else {
        if cfg.no_start { push("without_start_anchor", vec![]); }
        if cfg.no_end { push("without_end_anchor", vec![]); }
    }
    if cfg.min_rep != 1 { push("with_minimum_repetitions", vec![json!(cfg.min_rep)]); }
    if cfg.min_len != 1 { push("with_minimum_substring_length", vec![json!(cfg.min_len)]); }
    v
}

pub fn case_fn(_sub: &str, case: &Case, stats: &mut Stats) -> Result<(), String> {
    stats.eval();
    // error calls
    if let Some(kind) = case.extra.get("error").and_then(|v| v.as_str()) {
        stats.nontrivial(case.key());
        stats.class(&format!("error={}", kind));
        let (req, want) = match kind {
            "empty" => (json!({"tcs": [], "calls": []}), MSG_EMPTY),
            "empty-classmethod" => (json!({"tcs": [], "calls": [], "ctor": "from_test_cases"}), MSG_EMPTY),
            "minrep0" => (json!({"tcs": ["a"], "calls": [["with_minimum_repetitions", 0]]}), MSG_MINREP),
            "minrep-1" => (json!({"tcs": ["a"], "calls": [["with_minimum_repetitions", -1]]}), MSG_MINREP),
            "minlen0" => (json!({"tcs": ["a"], "calls": [["with_minimum_substring_length", 0]]}), MSG_MINLEN),
            "minlen-1" => (json!({"tcs": ["a"], "calls": [["with_minimum_substring_length", -1]]}), MSG_MINLEN),
            other => return Err(format!("unknown error kind {}", other)),
        };
        let ans = ask(&req).map_err(|e| if e == "DIED" { format!("the Python interpreter died on error call {}", kind) } else { e })?;
        stats.sample(|| json!({"error_call": kind, "answer": ans}));
        return if ans["error_type"] == "ValueError" && ans["error"] == want {
            Ok(())
        } else {
            Err(format!("error call '{}' answered {} instead of raising ValueError({:?})", kind, ans, want))
        };
    }
    if let Some(v) = case.extra.get("large_threshold").and_then(|v| v.as_i64()) {
        // thresholds at and beyond the u32 range: the call must either be refused (any exception) or
        // behave like the library with that threshold (values above u32::MAX cannot be represented,
        // so accepting them silently is only right if nothing is converted)
        stats.nontrivial(case.key());
        let which = case.extra.get("which").and_then(|v| v.as_str()).unwrap_or("with_minimum_repetitions").to_string();
        let tcs = vec!["aaaa".to_string(), "abababab".to_string()];
        let req = json!({"tcs": tcs, "calls": [["with_conversion_of_repetitions"], [which, v]]});
        let ans = ask(&req).map_err(|e| if e == "DIED" { format!("the Python interpreter died on {}({})", which, v) } else { e })?;
        stats.sample(|| json!({"large_threshold": v, "setter": which, "answer": ans}));
        if ans.get("error_type").is_some() {
            return Ok(());
        }
        let mut c = Cfg::default();
        c.repetitions = true;
        let capped = v.clamp(1, u32::MAX as i64) as u32;
        if which == "with_minimum_repetitions" { c.min_rep = capped } else { c.min_len = capped }
        let want = build(&tcs, &c).map_err(build_err)?;
        let got = ans["pattern"].as_str().unwrap_or("");
        return if got == want {
            Ok(())
        } else {
            Err(format!("{}({}) was accepted and built {:?}; the library with that threshold builds {:?}", which, v, got, want))
        };
    }
    let mut cfg = case.cfg.clone();
    cfg.colour = false;
    if cfg.min_rep > 1_000_000 { cfg.min_rep = 1000; }
    if cfg.min_len > 1_000_000 { cfg.min_len = 1000; }
    let non_ascii = case.tcs.iter().any(|t| !t.is_ascii());
    let exotic_ws = case.tcs.iter().any(|t| t.chars().any(|c| c.is_whitespace() && !c.is_ascii()));
    if (cfg.escape && non_ascii) || (cfg.verbose && exotic_ws) {
        stats.nontrivial(case.key());
    }
    stats.class(match (cfg.escape, cfg.surrogates) { (false, _) => "no-escape", (true, false) => "escape", (true, true) => "escape+surrogates" });
    let rust = build(&case.tcs, &cfg).map_err(build_err)?;
    let want = rewrite(&rust);
    let ctor = if case.extra.get("classmethod").and_then(|v| v.as_bool()).unwrap_or(false) { "from_test_cases" } else { "new" };
    let chain = case.extra.get("chain").and_then(|v| v.as_bool()).unwrap_or(true);
    // call history: setters that are called again later with the final value (last call wins):
    // escaping with the opposite surrogate choice first, thresholds set to another value first, and an
    // intermediate build() — the final result must still be the library's for the final settings
    let noise = case.extra.get("noise").and_then(|v| v.as_u64()).unwrap_or(0);
    let mut calls = vec![];
    if noise & 1 != 0 && cfg.escape {
        calls.push(json!(["with_escaping_of_non_ascii_chars", !cfg.surrogates]));
    }
    if noise & 2 != 0 && cfg.min_rep != 1 {
        calls.push(json!(["with_minimum_repetitions", (cfg.min_rep % 5) + 2]));
    }
    if noise & 4 != 0 && cfg.min_len != 1 {
        calls.push(json!(["with_minimum_substring_length", (cfg.min_len % 3) + 2]));
    }
    if noise & 8 != 0 {
        calls.push(json!(["build"]));
    }
    calls.extend(calls_for(&cfg));
    if noise & 16 != 0 {
        calls.push(json!(["build"]));
    }
    let req = json!({"tcs": case.tcs, "calls": calls, "ctor": ctor, "chain": chain});
    let ans = ask(&req).map_err(|e| if e == "DIED" { format!("the Python interpreter died building {:?} [{}]", case.tcs, cfg.tag()) } else { e })?;
    stats.sample(|| json!({"tcs": case.tcs, "cfg": cfg.tag(), "rust": rust, "python": ans["pattern"]}));
    if let Some(e) = ans.get("driver_error") {
        return Err(format!("INFRA driver error {}", e));
    }
    if let Some(t) = ans.get("error_type") {
        return Err(format!("Python build of {:?} [{}] raised {}: {}", case.tcs, cfg.tag(), t, ans["error"]));
    }
    let got = ans["pattern"].as_str().unwrap_or("");
    if got != want {
        return Err(format!("Python returned {:?}; the Rust library returns {:?}, i.e. {:?} in Python escape syntax [{}]", got, rust, want, cfg.tag()));
    }
    if ans["compiled"] != true {
        return Err(format!("Python's re rejects {:?}: {} [{}]", got, ans["compile_error"], cfg.tag()));
    }
    if !cfg.classes() && !(cfg.escape && cfg.surrogates) {
        let fm = ans["fullmatch"].as_array().cloned().unwrap_or_default();
        for (t, ok) in case.tcs.iter().zip(fm.iter()) {
            if ok != true {
                // the listed known finding: "" dropped next to other test cases (same pattern as
                // the Rust library, which C01/C02 classify with the stage hooks)
                if t.is_empty() && distinct_count(&case.tcs) >= 2 {
                    let j = crate::spec::judge(&case.tcs, &cfg, &rust_for_judge(&rust, &cfg), None);
                    if let crate::spec::Verdict::Explained { ids, .. } = &j.verdict {
                        if ids.contains(&"KF-empty") {
                            accept_explained("C14", &["KF-empty"], case, &rust, stats)?;
                            continue;
                        }
                    }
                }
                return Err(format!("Python's re.fullmatch({:?}, {:?}) fails [{}]", got, t, cfg.tag()));
            }
        }
    }
    Ok(())
}

fn rust_for_judge(p: &str, _cfg: &Cfg) -> String {
    p.to_string()
}

fn fix(mut c: Cfg) -> Cfg {
    c.colour = false;
    if !c.escape {
        c.surrogates = false;
    }
    c
}

fn run(ctx: &mut Ctx) {
    if !std::path::Path::new(&format!("{}/grex.so", py_dir())).exists() {
        ctx.infra_errors.push(format!("python extension {}/grex.so not built", py_dir()));
        return;
    }
    let root = crate::root();
    let reg: Vec<Case> = regress_cases(&root, "C14").into_iter().map(|(_, c)| c).collect();
    ctx.fixed("regress", &reg, &case_fn);

    let errs: Vec<Case> = ["empty", "empty-classmethod", "minrep0", "minrep-1", "minlen0", "minlen-1"]
        .iter()
        .map(|k| {
            let mut c = Case::new(vec![], Cfg::default());
            c.extra = json!({"error": k});
            c
        })
        .collect();
    ctx.fixed("error-calls", &errs, &case_fn);
    let mut larges = vec![];
    for which in ["with_minimum_repetitions", "with_minimum_substring_length"] {
        for v in [2147483647i64, 2147483648, 4294967295, 4294967296, 4294967297, 4294967299, 1 << 40, (1 << 62) + 3] {
            let mut c = Case::new(vec![], Cfg::default());
            c.extra = json!({"large_threshold": v, "which": which});
            larges.push(c);
        }
    }
    ctx.fixed("large-thresholds", &larges, &case_fn);

    // every boundary scalar x escape modes x {plain, -r, -x}
    let scalars = ["\u{7f}", "\u{80}", "\u{e9}", "\u{ff}", "\u{100}", "\u{fff}", "\u{1000}", "\u{ffff}", "\u{10000}", "\u{fffff}", "\u{100000}", "\u{10ffff}", "\u{2003}", "\u{a0}"];
    let mut fixed = vec![];
    for s in scalars {
        for (e, u) in [(false, false), (true, false), (true, true)] {
            for extra in 0..3 {
                let mut cfg = Cfg::default();
                cfg.escape = e;
                cfg.surrogates = u;
                cfg.repetitions = extra == 1;
                cfg.verbose = extra == 2;
                fixed.push(Case::new(vec![s.to_string(), format!("a{}{}", s, s)], cfg));
            }
        }
    }
    ctx.fixed("boundary-scalars", &fixed, &case_fn);

    let total = ctx.tier.pick(40_000, 400_000);
    let max_ops = ctx.tier.pick(5, 8);
    let strat = move || {
        use proptest::prelude::*;
        (case_strategy(&["boundary", "boundary", "boundary", "marks", "space", "cased", "meta", "repeat", "clusters", "digits"], true, W_DEFAULT, max_ops, 4, fix), any::<bool>(), any::<bool>(), proptest::bool::weighted(0.6))
            .prop_map(|(mut c, cm, chain, esc)| {
                c.cfg.escape = c.cfg.escape || esc;
                let noise = (c.key() >> 7) & 31;
                c.extra = json!({"pool": c.extra["pool"], "classmethod": cm, "chain": chain, "noise": noise});
                c
            })
            .boxed()
    };
    ctx.generated("gen", &strat, total, &|s, c, st| {
        count_pool(c, st);
        case_fn(s, c, st)
    });
    let _ = Tier::Quick;
}
