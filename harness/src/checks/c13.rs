//! C13 Repetition thresholds are honoured; braces appear only on request.

use super::common::*;
use super::Check;
use crate::astx::census;
use crate::cfg::{build, Case, Cfg};
use crate::gen::*;
use crate::runner::{Ctx, Stats, Tier};
use serde_json::json;

pub const CHECK: Check = Check {
    id: "C13",
    run,
    case_fn,
    rule: "cases = (test-case list rich in repeats: unary, periodic, nested periods; -r with min_repetitions and min_substring_length in 1..=6 (and large), optional classes/-i/-g/-x/-e). Oracle on the regex AST: without -r there is no {n}/{m,n} quantifier; with -r every counted quantifier has an upper count > min_repetitions and an operand whose minimal match length in code points (nested counts expanded, a class = 1) is >= min_substring_length. Non-trivial = the -r build under thresholds (1,1) contains a counted quantifier. Distinct = hash of (test cases, settings).",
    assumptions: &["unit length is measured in code points of the printed operand, a lower bound of grex's grapheme count, so the check never demands more than the property"],
};

pub fn case_fn(_sub: &str, case: &Case, stats: &mut Stats) -> Result<(), String> {
    let cfg = &case.cfg;
    if !cfg.regex_crate() {
        return Ok(());
    }
    stats.eval();
    // without -r: no braces at all
    let mut plain = cfg.clone();
    plain.repetitions = false;
    let p0 = build(&case.tcs, &plain).map_err(build_err)?;
    let c0 = census(&p0).map_err(|e| format!("pattern {:?} does not parse: {}", p0, e.lines().last().unwrap_or("")))?;
    if !c0.counted.is_empty() {
        return Err(format!("without repetition conversion the pattern {:?} contains a counted quantifier {:?}", p0, c0.counted[0]));
    }
    // reference: -r with thresholds (1,1) -> non-triviality
    let mut r11 = cfg.clone();
    r11.repetitions = true;
    r11.min_rep = 1;
    r11.min_len = 1;
    let p11 = build(&case.tcs, &r11).map_err(build_err)?;
    let c11 = census(&p11).map_err(|e| format!("pattern {:?} does not parse: {}", p11, e.lines().last().unwrap_or("")))?;
    if !c11.counted.is_empty() {
        stats.nontrivial(case.key());
    }
    let mut r = cfg.clone();
    r.repetitions = true;
    let p = build(&case.tcs, &r).map_err(build_err)?;
    stats.sample(|| json!({"tcs": case.tcs, "cfg": r.tag(), "pattern": p, "pattern_r_1_1": p11}));
    let c = census(&p).map_err(|e| format!("pattern {:?} does not parse: {}", p, e.lines().last().unwrap_or("")))?;
    stats.class(&format!("counted={}", c.counted.len().min(4)));
    for &(lo, hi, unit) in &c.counted {
        if hi == u32::MAX {
            return Err(format!("pattern {:?} contains an open-ended counted quantifier {{{},}}", p, lo));
        }
        if hi <= r.min_rep {
            return Err(format!("pattern {:?} [{}] has a quantifier {{{},{}}} whose upper count is not greater than min_repetitions={}", p, r.tag(), lo, hi, r.min_rep));
        }
        if (unit as u64) < r.min_len as u64 {
            return Err(format!("pattern {:?} [{}] has a quantifier {{{},{}}} on a unit of {} code point(s), shorter than min_substring_length={}", p, r.tag(), lo, hi, unit, r.min_len));
        }
        if lo == 0 || lo > hi {
            return Err(format!("pattern {:?} has a malformed quantifier {{{},{}}}", p, lo, hi));
        }
    }
    Ok(())
}

fn fix(mut c: Cfg) -> Cfg {
    c.colour = false;
    c.surrogates = false;
    c.no_start = false;
    c.no_end = false;
    c.repetitions = true;
    c
}

fn run(ctx: &mut Ctx) {
    let root = crate::root();
    let reg: Vec<Case> = regress_cases(&root, "C13").into_iter().map(|(_, c)| c).collect();
    ctx.fixed("regress", &reg, &case_fn);

    let mk = |a: u32, b: u32| {
        let mut c = Cfg::default();
        c.repetitions = true;
        c.min_rep = a;
        c.min_len = b;
        c
    };
    let th: Vec<(u32, u32)> = (1..=6).flat_map(|a| (1..=6).map(move |b| (a, b))).collect();
    let nt = th.len() as u64;
    let u3a = Universe::u3a();
    ctx.exhaustive("U3a x 36 thresholds", u3a.subset_count() * nt, &|i| Case::new(u3a.subset(i / nt + 1), mk(th[(i % nt) as usize].0, th[(i % nt) as usize].1)), &case_fn);
    let u3b = Universe::u3b();
    let thq: Vec<(u32, u32)> = match ctx.tier {
        Tier::Quick => vec![(1, 1), (2, 1), (1, 2), (2, 2), (3, 2), (1, 3)],
        Tier::Thorough => th.clone(),
    };
    let nq = thq.len() as u64;
    ctx.exhaustive("U3b x thresholds", u3b.subset_count() * nq, &|i| Case::new(u3b.subset(i / nq + 1), mk(thq[(i % nq) as usize].0, thq[(i % nq) as usize].1)), &case_fn);
    // every single test case over {a,b} up to length 10 x 9 threshold pairs
    let singles = Universe::words(&["a", "b"], ctx.tier.pick(10, 12));
    let sth: Vec<(u32, u32)> = (1..=3).flat_map(|a| (1..=3).map(move |b| (a, b))).collect();
    let ns = sth.len() as u64;
    ctx.exhaustive("single test cases x 9 thresholds", singles.len() as u64 * ns, &|i| Case::new(vec![singles[(i / ns) as usize].clone()], mk(sth[(i % ns) as usize].0, sth[(i % ns) as usize].1)), &case_fn);
    // nested periods: (a^i b)^j c^k families
    let mut nested: Vec<Vec<String>> = vec![];
    for i in 1..=4usize {
        for j in 1..=4usize {
            for k in 0..=3usize {
                let unit = format!("{}b", "a".repeat(i));
                nested.push(vec![format!("{}{}", unit.repeat(j), "c".repeat(k)), unit.repeat(j + 1)]);
            }
        }
    }
    let nn = nested.len() as u64;
    ctx.exhaustive("nested families x 36 thresholds", nn * nt, &|i| Case::new(nested[(i / nt) as usize].clone(), mk(th[(i % nt) as usize].0, th[(i % nt) as usize].1)), &case_fn);

    let total = ctx.tier.pick(30_000, 500_000);
    let max_ops = ctx.tier.pick(5, 10);
    let strat = move || case_strategy(&["repeat", "abc", "abc", "digits", "meta", "marks", "boundary", "clusters", "space", "backslash", "lookalike"], true, W_REPEAT, max_ops, 9, fix);
    ctx.generated("gen", &strat, total, &|s, c, st| {
        count_pool(c, st);
        case_fn(s, c, st)
    });
    let total_large = ctx.tier.pick(5000, 100000);
    let strat_large = move || case_strategy_large(&["repeat", "abc", "abc", "digits", "meta", "marks", "boundary", "clusters", "space", "backslash", "lookalike"], W_REPEAT, fix);
    ctx.generated("gen-large", &strat_large, total_large, &|s, c, st| {
        count_pool(c, st);
        case_fn(s, c, st)
    });
    if ctx.tier == crate::runner::Tier::Thorough {
        ctx.fuzz_campaign("fuzz_lang", 8000);
    }
}
