//! C09 Digit/word/space classification agrees with the regex crate on every code point.

use super::c01::{scalar, SCALARS};
use super::common::*;
use super::Check;
use crate::cfg::{build, Case, Cfg};
use crate::lang::{set_contains, CharSet};
use crate::runner::{Ctx, Stats, Tier};
use crate::spec::{class_set, classes, documented_class};
use serde_json::json;
use std::cell::RefCell;
use std::collections::HashMap;

pub const CHECK: Check = Check {
    id: "C09",
    run,
    case_fn,
    rule: "cases = (one scalar value c as a one-character test case, a subset of the six conversion flags). Oracle: build([c]) is exactly ^\\X$ for the class token X that the documented precedence assigns to c using regex-syntax's own \\d/\\w/\\s tables, and a literal (not a class token) when no enabled class contains c; the output matches c on the real engine. Both tiers: every scalar value under the 6 single flags (the property's own quantifier, exhaustive) and all 64 subsets on all table boundaries (grex's and regex-syntax's) +-1; all 64 subsets on a seeded stride-13 sample of all scalars (quick) or on every scalar (thorough). Also both tiers: 240 inputs of 2-4 code points that grex keeps in one grapheme cluster (base + emoji modifier / halfwidth voicing mark / spacing mark / ZWJ, Prepend letter + base) x all 64 subsets, oracle = the sequence of class tokens in the pattern equals the per-code-point sequence from the documented precedence and the pattern matches. Non-trivial = c lies in \\d, \\w or \\s or is a table boundary. Distinct = hash of (c, flags).",
    assumptions: &["'the regex crate's class of that name' = regex-syntax 0.8.4 Unicode perl classes as parsed from \\d, \\w, \\s"],
};

thread_local! {
    static RE_CACHE: RefCell<HashMap<String, regex::Regex>> = RefCell::new(HashMap::new());
}

fn matches(pattern: &str, text: &str) -> Result<bool, String> {
    let is_class = pattern.len() == 4 && pattern.starts_with("^\\") && pattern.ends_with('$');
    if is_class {
        RE_CACHE.with(|c| {
            let mut c = c.borrow_mut();
            if !c.contains_key(pattern) {
                c.insert(pattern.to_string(), crate::lang::compile_regex(pattern)?);
            }
            Ok(c[pattern].is_match(text))
        })
    } else {
        Ok(crate::lang::compile_regex(pattern)?.is_match(text))
    }
}

pub fn case_fn(_sub: &str, case: &Case, stats: &mut Stats) -> Result<(), String> {
    let cfg = &case.cfg;
    if case.tcs.len() == 1 && (2..=4).contains(&case.tcs[0].chars().count()) {
        return cluster_case(case, stats);
    }
    let c = match case.tcs.first().and_then(|t| t.chars().next()) {
        Some(c) if case.tcs.len() == 1 && case.tcs[0].chars().count() == 1 => c,
        _ => return Ok(()),
    };
    stats.eval();
    let k = classes();
    if set_contains(&k.d, c) || set_contains(&k.w, c) || set_contains(&k.s, c) || case.extra.get("boundary").is_some() {
        stats.nontrivial(case.key());
    }
    let p = build(&case.tcs, cfg).map_err(build_err)?;
    stats.sample(|| json!({"c": format!("U+{:04X}", c as u32), "cfg": cfg.tag(), "pattern": p}));
    let want = documented_class(c, cfg);
    let tokens = ["^\\d$", "^\\w$", "^\\s$", "^\\D$", "^\\W$", "^\\S$"];
    match want {
        Some(t) => {
            let expect = format!("^\\{}$", t);
            if p != expect {
                return Err(format!("U+{:04X} with {}: expected {:?} (regex crate: member of \\{}), got {:?}", c as u32, cfg.tag(), expect, t, p));
            }
        }
        None => {
            if tokens.contains(&p.as_str()) {
                return Err(format!("U+{:04X} with {}: converted to {:?} although no enabled class contains it per the regex crate", c as u32, cfg.tag(), p));
            }
        }
    }
    match matches(&p, &case.tcs[0]) {
        Ok(true) => Ok(()),
        Ok(false) => Err(format!("U+{:04X} with {}: pattern {:?} does not match the character it was derived from", c as u32, cfg.tag(), p)),
        Err(e) => Err(format!("U+{:04X} with {}: pattern {:?} does not compile: {}", c as u32, cfg.tag(), p, e)),
    }
}

/// One test case of 2-4 code points (a base plus extenders that grex keeps in one grapheme cluster):
/// the classification is still per code point. Oracle: the sequence of class tokens in the pattern is
/// the sequence the documented precedence assigns to the code points one by one, and the pattern
/// matches the test case. Bases never contain a backslash, so `\\d` etc. can only be class tokens.
fn cluster_case(case: &Case, stats: &mut Stats) -> Result<(), String> {
    let cfg = &case.cfg;
    let t = &case.tcs[0];
    if t.contains('\\') {
        return Ok(());
    }
    stats.eval();
    let want: Vec<char> = t.chars().filter_map(|c| documented_class(c, cfg)).collect();
    if !want.is_empty() {
        stats.nontrivial(case.key());
    }
    let p = build(&case.tcs, cfg).map_err(build_err)?;
    stats.sample(|| json!({"tc": t, "cfg": cfg.tag(), "pattern": p}));
    let mut got = Vec::new();
    let mut it = p.chars();
    while let Some(ch) = it.next() {
        if ch == '\\' {
            if let Some(n) = it.next() {
                if "dwsDWS".contains(n) {
                    got.push(n);
                }
            }
        }
    }
    if got != want {
        return Err(format!("{:?} with {}: class tokens per code point should be {:?} (regex crate's classes, documented precedence), pattern {:?} has {:?}", t, cfg.tag(), want, p, got));
    }
    match matches(&p, t) {
        Ok(true) => Ok(()),
        Ok(false) => Err(format!("{:?} with {}: pattern {:?} does not match the characters it was derived from", t, cfg.tag(), p)),
        Err(e) => Err(format!("{:?} with {}: pattern {:?} does not compile: {}", t, cfg.tag(), p, e)),
    }
}

fn cluster_inputs() -> Vec<String> {
    let bases = ['a', 'Z', '1', '\u{0663}', ' ', '\u{2003}', '-', '(', '\u{e9}', '\u{4e2d}', '_', '\u{1F600}'];
    let exts = ['\u{1F3FB}', '\u{1F3FD}', '\u{1F3FF}', '\u{FF9E}', '\u{FF9F}', '\u{0E33}', '\u{0301}', '\u{200D}', '\u{0903}'];
    let mut v = Vec::new();
    for b in bases {
        for e in exts {
            v.push(format!("{b}{e}"));
            v.push(format!("{b}{e}{e}"));
        }
        v.push(format!("\u{0D4E}{b}"));
        v.push(format!("\u{0D4E}{b}\u{1F3FB}"));
    }
    v
}

fn single_flag_cfgs() -> Vec<Cfg> {
    (0..6)
        .map(|i| {
            let mut c = Cfg::default();
            *c.flag_mut(i) = true;
            c
        })
        .collect()
}

fn mask_cfg(mask: u32) -> Cfg {
    let mut c = Cfg::default();
    for i in 0..6 {
        if mask >> i & 1 == 1 {
            *c.flag_mut(i) = true;
        }
    }
    c
}

/// Boundaries of grex's tables, read from the source files of the working tree (data only: the
/// numbers steer where the sweep looks, they are not part of the oracle).
fn grex_table_boundaries() -> Vec<u32> {
    let mut out = vec![];
    for f in ["decimal.rs", "space.rs", "word.rs"] {
        if let Ok(s) = std::fs::read_to_string(format!("/repo/src/unicode_tables/{}", f)) {
            let mut rest = s.as_str();
            while let Some(i) = rest.find("'\\u{") {
                rest = &rest[i + 4..];
                if let Some(j) = rest.find('}') {
                    if let Ok(v) = u32::from_str_radix(&rest[..j], 16) {
                        out.push(v);
                    }
                }
            }
            // plain char literals such as '0'
            let b: Vec<char> = s.chars().collect();
            for w in b.windows(3) {
                if w[0] == '\'' && w[2] == '\'' && w[1] != '\\' {
                    out.push(w[1] as u32);
                }
            }
        }
    }
    out
}

fn boundaries() -> Vec<char> {
    let mut pts: Vec<u32> = grex_table_boundaries();
    let k = classes();
    for set in [&k.d, &k.w, &k.s] as [&CharSet; 3] {
        for &(a, b) in set.iter() {
            pts.push(a);
            pts.push(b);
        }
    }
    let mut all: Vec<u32> = pts.iter().flat_map(|&p| [p.saturating_sub(1), p, p + 1]).collect();
    all.extend([0, 0x7f, 0x80, 0xd7ff, 0xe000, 0xffff, 0x10000, 0x10ffff]);
    all.sort_unstable();
    all.dedup();
    all.into_iter().filter_map(char::from_u32).collect()
}

fn run(ctx: &mut Ctx) {
    let root = crate::root();
    let reg: Vec<Case> = regress_cases(&root, "C09").into_iter().map(|(_, c)| c).collect();
    ctx.fixed("regress", &reg, &case_fn);
    let _ = class_set('d');

    let b = boundaries();
    ctx.extra.insert("boundary_points".into(), json!(b.len()));
    let nb = b.len() as u64;
    let bcase = |c: char, cfg: Cfg| {
        let mut k = Case::new(vec![c.to_string()], cfg);
        k.extra = json!({"boundary": true});
        k
    };
    // all 64 subsets (63 non-empty + the empty one as control) on every boundary point
    ctx.exhaustive("boundaries x 64 subsets", nb * 64, &|i| bcase(b[(i / 64) as usize], mask_cfg((i % 64) as u32)), &case_fn);

    // classification inside multi-code-point grapheme clusters: every input x all 64 subsets
    let cl = cluster_inputs();
    ctx.exhaustive("cluster context x 64 subsets", cl.len() as u64 * 64, &|i| Case::new(vec![cl[(i / 64) as usize].clone()], mask_cfg((i % 64) as u32)), &case_fn);

    let singles = single_flag_cfgs();
    // the property's own quantifier, exhaustively, in BOTH tiers: all 1,112,064 scalar values x the 6
    // single conversion flags (about 20 s on 16 cores)
    ctx.exhaustive_domain = true;
    ctx.exhaustive("all scalars x 6 flags", SCALARS * 6, &|i| Case::new(vec![scalar(i / 6).unwrap().to_string()], singles[(i % 6) as usize].clone()), &case_fn);
    // all 64 subsets: a seeded stride sample of all scalars in quick, every scalar in thorough
    let stride = ctx.tier.pick(13u64, 1);
    let off = if stride > 1 { ctx.seed % stride } else { 0 };
    let cnt = SCALARS / stride;
    ctx.exhaustive(if stride == 1 { "all scalars x 64 subsets" } else { "stride sample x 64 subsets" }, cnt * 64, &|i| {
        Case::new(vec![scalar(((i / 64) * stride + off).min(SCALARS - 1)).unwrap().to_string()], mask_cfg((i % 64) as u32))
    }, &case_fn);
    let _ = Tier::Quick;
}
