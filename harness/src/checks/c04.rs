//! C04 Case-insensitive option accepts exactly the case variants of the test cases.

use super::c01::{scalar, SCALARS};
use super::common::*;
use super::Check;
use crate::cfg::{build, build_with_stages, Case, Cfg};
use crate::gen::*;
use crate::lang::{fold, single};
use crate::runner::{Ctx, Stats, Tier};
use serde_json::json;

pub const CHECK: Check = Check {
    id: "C04",
    run,
    case_fn,
    rule: "cases = (test-case list, -i plus optional -x -g -e). Oracle language: every code point of every ORIGINAL test case replaced by its closure under regex-syntax's simple case folding. Also: output starts with (?i) / (?ix); case-only variants collapse (removing a variant whose lower-casing equals another member's, code-point counts preserved, leaves the output unchanged). Scalar sweep: each scalar as a one-character test case and embedded as x·c·y. Non-trivial = the test cases contain a cased letter (fold closure larger than the letter, or std lower/upper-casing changes it). Distinct = hash of (test cases, settings).",
    assumptions: &["'the regex engine's simple case folding' = regex-syntax 0.8.4 ClassUnicode::case_fold_simple"],
};

fn is_cased(c: char) -> bool {
    fold(&single(c)).iter().map(|&(a, b)| b - a + 1).sum::<u32>() > 1
        || c.to_lowercase().to_string() != c.to_string()
        || c.to_uppercase().to_string() != c.to_string()
}

pub fn case_fn(sub: &str, case: &Case, stats: &mut Stats) -> Result<(), String> {
    let mut cfg = case.cfg.clone();
    cfg.ignore_case = true;
    if !cfg.regex_crate() {
        return Ok(());
    }
    stats.eval();
    if case.tcs.iter().any(|t| t.chars().any(is_cased)) {
        stats.nontrivial(case.key());
    }
    let (pattern, stages) = build_with_stages(&case.tcs, &cfg).map_err(build_err)?;
    stats.sample(|| json!({"tcs": case.tcs, "cfg": cfg.tag(), "pattern": pattern}));
    let want = if cfg.verbose { "(?ix)" } else { "(?i)" };
    if !pattern.starts_with(want) {
        return Err(format!("pattern {:?} does not start with {:?}", pattern, want));
    }
    judge_case("C04", case, &cfg, &pattern, Some(&stages), stats)?;
    if sub.starts_with("scalars") {
        return Ok(());
    }
    // collapse clause
    let lower = |s: &String| s.to_lowercase();
    let cps = |s: &String| s.chars().count();
    let mut keep: Vec<String> = vec![];
    let mut dropped = 0;
    for t in &case.tcs {
        let lt = lower(t);
        let preserved = cps(&lt) == cps(t);
        // "differ only by case" as the regex engine sees case: every lower-cased code point must be
        // in the engine's fold closure of the original one (std knows newer letters than the engine)
        let lowerable = |s: &String| {
            let l = lower(s);
            cps(&l) == cps(s) && s.chars().zip(l.chars()).all(|(c, lc)| crate::lang::set_contains(&fold(&single(c)), lc))
        };
        if preserved && lowerable(t) && keep.iter().any(|k| k != t && lower(k) == lt && lowerable(k)) {
            dropped += 1;
            continue;
        }
        keep.push(t.clone());
    }
    if dropped > 0 {
        stats.class("collapse-pairs");
        let p2 = build(&keep, &cfg).map_err(build_err)?;
        if p2 != pattern {
            return Err(format!(
                "case-only variants do not collapse: build{:?} = {:?} but build{:?} = {:?}",
                case.tcs, pattern, keep, p2
            ));
        }
    }
    Ok(())
}

fn fix(mut c: Cfg) -> Cfg {
    c = Cfg { ignore_case: true, verbose: c.verbose, capture: c.capture, escape: c.escape, ..Cfg::default() };
    c
}

fn run(ctx: &mut Ctx) {
    let root = crate::root();
    let reg: Vec<Case> = regress_cases(&root, "C04").into_iter().map(|(_, c)| c).collect();
    ctx.fixed("regress", &reg, &case_fn);

    let mut ci = Cfg::default();
    ci.ignore_case = true;
    let u = Universe::u1().lifted("lift:case", LIFTS[5].1);
    ctx.exhaustive("U1-case", u.subset_count(), &|i| Case::new(u.subset(i + 1), ci.clone()), &case_fn);

    let total = ctx.tier.pick(60_000, 600_000);
    let max_ops = ctx.tier.pick(5, 10);
    let strat = move || case_strategy(&["cased", "cased", "abc", "marks", "digits", "fold-s", "fold-sigma", "fold-misc"], true, W_CASE, max_ops, 4, fix);
    ctx.generated("gen", &strat, total, &|s, c, st| {
        count_pool(c, st);
        case_fn(s, c, st)
    });

    // scalar sweep
    let cased: Vec<char> = (0..SCALARS).filter_map(scalar).filter(|&c| is_cased(c)).collect();
    let nc = cased.len() as u64;
    ctx.extra.insert("cased_scalars".into(), json!(nc));
    ctx.exhaustive("scalars-cased", nc * 2, &|i| {
        let c = cased[(i / 2) as usize];
        Case::new(vec![if i % 2 == 0 { c.to_string() } else { format!("x{}y", c) }], ci.clone())
    }, &case_fn);
    let stride = ctx.tier.pick(97, 1);
    let count = (SCALARS + stride - 1) / stride;
    let off = if stride > 1 { ctx.seed % stride } else { 0 };
    ctx.exhaustive(if stride == 1 { "scalars-all" } else { "scalars-stride" }, count, &|i| {
        let c = scalar((i * stride + off).min(SCALARS - 1)).unwrap();
        Case::new(vec![c.to_string()], ci.clone())
    }, &case_fn);
    let _ = Tier::Quick;
}
