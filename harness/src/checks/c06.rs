//! C06 Verbose mode, capturing groups and escaping do not change the language.

use super::common::*;
use super::Check;
use crate::astx::census;
use crate::cfg::{build, Case, Cfg};
use crate::gen::*;
use crate::runner::{Ctx, Stats, Tier};
use serde_json::json;

pub const CHECK: Check = Check {
    id: "C06",
    run,
    case_fn,
    rule: "cases = (test-case list, base settings without verbose/capture/escape); each case is built under all 8 subsets of {verbose, capture, escape}. Oracles: L(subset build) = L(base build) (pattern vs pattern, symbolic, engine-confirmed); verbose output starts with (?x) or (?ix) and parses under that flag; with capture every group is a capturing group, without it none is; escaped output is ASCII. Non-trivial = the case contains a character that is special under one of the options (whitespace or '#', a non-ASCII scalar) or its output contains a group. Distinct = hash of (test cases, base settings).",
    assumptions: &["regex-syntax reads (?x) and \\u{..} exactly as the regex engine does (same parser)", "a differential difference is tolerated only when both builds equal the specification up to listed known findings, each re-verified on its stage signature"],
};

pub fn case_fn(_sub: &str, case: &Case, stats: &mut Stats) -> Result<(), String> {
    let mut base = case.cfg.clone();
    base.verbose = false;
    base.capture = false;
    base.escape = false;
    base.surrogates = false;
    base.colour = false;
    let p_base = build(&case.tcs, &base).map_err(build_err)?;
    let special = case.tcs.iter().any(|t| t.chars().any(|c| c.is_whitespace() || c == '#' || !c.is_ascii()));
    if special || p_base.contains('(') {
        stats.nontrivial(case.key());
    }
    stats.eval();
    for mask in 1..8u32 {
        let mut cfg = base.clone();
        cfg.verbose = mask & 1 != 0;
        cfg.capture = mask & 2 != 0;
        cfg.escape = mask & 4 != 0;
        stats.eval();
        let p = build(&case.tcs, &cfg).map_err(build_err)?;
        if mask == 7 {
            stats.sample(|| json!({"tcs": case.tcs, "base": base.tag(), "base_pattern": p_base, "x+g+e_pattern": p}));
        }
        let ctx_msg = |m: String| format!("[{}] {}", cfg.tag(), m);
        if cfg.verbose {
            let want = if cfg.ignore_case { "(?ix)" } else { "(?x)" };
            if !p.starts_with(want) {
                return Err(ctx_msg(format!("verbose pattern {:?} does not start with {:?}", p, want)));
            }
        }
        if cfg.escape && !p.is_ascii() {
            return Err(ctx_msg(format!("escaped pattern {:?} is not pure ASCII", p)));
        }
        let cen = census(&p).map_err(|e| ctx_msg(format!("pattern {:?} does not parse: {}", p, e.lines().last().unwrap_or(""))))?;
        if cfg.capture && (cen.non_capturing_groups > 0 || cen.named_groups > 0) {
            return Err(ctx_msg(format!("pattern {:?} has a non-capturing group although capturing groups are enabled", p)));
        }
        if !cfg.capture && (cen.capturing_groups > 0 || cen.named_groups > 0) {
            return Err(ctx_msg(format!("pattern {:?} has a capturing group although capturing groups are not enabled", p)));
        }
        let want_flags = match (cfg.ignore_case, cfg.verbose) {
            (true, true) => "ix",
            (true, false) => "i",
            (false, true) => "x",
            (false, false) => "",
        };
        if cen.leading_flags != want_flags || cen.other_flag_items > 0 {
            return Err(ctx_msg(format!("pattern {:?} carries flags {:?} (+{} inner flag items), expected {:?}", p, cen.leading_flags, cen.other_flag_items, want_flags)));
        }
        match pattern_diff(&p, &p_base) {
            Ok(None) => {}
            Ok(Some((w, only_opt))) => {
                stats.confirm();
                // Tolerated only if the whole difference is due to listed known findings: each side
                // must equal the specification or differ from it exactly by listed signatures
                // (e.g. the base build carries the KF-merge over-match while the verbose build fell
                // back to the exact last-resort alternation).
                let verdict_ok = |c: &Cfg, pat: &str, st: &mut Stats| -> Result<bool, String> {
                    match crate::spec::judge(&case.tcs, c, pat, None).verdict {
                        crate::spec::Verdict::Equal => Ok(true),
                        crate::spec::Verdict::Explained { ids, .. } => {
                            accept_explained("C06", &ids, case, pat, st)?;
                            Ok(true)
                        }
                        _ => Ok(false),
                    }
                };
                if !(verdict_ok(&cfg, &p, stats)? && verdict_ok(&base, &p_base, stats)?) {
                    return Err(ctx_msg(format!(
                        "pattern {:?} and the base build {:?} differ on {:?} (accepted only by the {})",
                        p, p_base, w, if only_opt { "option build" } else { "base build" }
                    )));
                }
            }
            Err(e) if e.starts_with("invalid:") => {
                return Err(ctx_msg(format!("pattern {:?} is rejected by the regex crate: {}", p, e.lines().last().unwrap_or(""))));
            }
            Err(e) => stats.inconclusive(&e, || json!({"tcs": case.tcs, "cfg": cfg.tag(), "pattern": p})),
        }
    }
    Ok(())
}

fn fix(mut c: Cfg) -> Cfg {
    c.colour = false;
    c.surrogates = false;
    c.verbose = false;
    c.capture = false;
    c.escape = false;
    c
}

fn run(ctx: &mut Ctx) {
    let root = crate::root();
    let reg: Vec<Case> = regress_cases(&root, "C06").into_iter().map(|(_, c)| c).collect();
    ctx.fixed("regress", &reg, &case_fn);

    let u = Universe::u1().lifted("lift:space", LIFTS[4].1);
    ctx.exhaustive("U1-space", u.subset_count(), &|i| Case::new(u.subset(i + 1), Cfg::default()), &case_fn);
    if ctx.tier == Tier::Thorough {
        for li in [1usize, 2] {
            let (name, subst) = LIFTS[li];
            let u = Universe::u1().lifted(name, subst);
            ctx.exhaustive(&format!("U1-{}", name), u.subset_count(), &|i| Case::new(u.subset(i + 1), Cfg::default()), &case_fn);
        }
    }
    let total = ctx.tier.pick(25_000, 250_000);
    let max_ops = ctx.tier.pick(5, 10);
    let strat = move || {
        case_strategy(&["space", "space", "meta", "marks", "boundary", "abc", "clusters", "digits", "backslash", "cased", "metamod", "repeat"], true, W_DEFAULT, max_ops, 5, fix)
    };
    ctx.generated("gen", &strat, total, &|s, c, st| {
        count_pool(c, st);
        st.class(&format!("base-flags={}", c.cfg.flag_count().min(5)));
        case_fn(s, c, st)
    });
    if ctx.tier == crate::runner::Tier::Thorough {
        ctx.fuzz_campaign("fuzz_lang", 4000);
    }
}
