//! Structural observers on the regex crate's own AST of a pattern.

use regex_syntax::ast::{self, Ast, GroupKind, RepetitionKind, RepetitionRange};

#[derive(Debug, Default, Clone)]
pub struct Census {
    pub capturing_groups: usize,
    pub non_capturing_groups: usize,
    pub named_groups: usize,
    /// counted repetitions: (min, max, minimal number of code points matched by one operand copy)
    pub counted: Vec<(u32, u32, usize)>,
    pub stars: usize,
    pub questions: usize,
    pub pluses: usize,
    pub alternations: usize,
    pub classes: usize,
    /// flags set by a leading `(?flags)` item, e.g. "i", "x", "ix"
    pub leading_flags: String,
    pub other_flag_items: usize,
    pub starts_with_caret: bool,
    pub ends_with_dollar: bool,
    pub assertions: usize,
}

pub fn parse_ast(pattern: &str) -> Result<Ast, String> {
    ast::parse::ParserBuilder::new().nest_limit(100_000).build().parse(pattern).map_err(|e| e.to_string())
}

fn flags_string(f: &ast::Flags) -> String {
    let mut s = String::new();
    for it in &f.items {
        match &it.kind {
            ast::FlagsItemKind::Negation => s.push('-'),
            ast::FlagsItemKind::Flag(fl) => s.push(match fl {
                ast::Flag::CaseInsensitive => 'i',
                ast::Flag::MultiLine => 'm',
                ast::Flag::DotMatchesNewLine => 's',
                ast::Flag::SwapGreed => 'U',
                ast::Flag::Unicode => 'u',
                ast::Flag::CRLF => 'R',
                ast::Flag::IgnoreWhitespace => 'x',
            }),
        }
    }
    s
}

/// Minimal number of code points matched by `a`.
pub fn min_len(a: &Ast) -> usize {
    match a {
        Ast::Empty(_) | Ast::Flags(_) | Ast::Assertion(_) => 0,
        Ast::Literal(_) | Ast::Dot(_) | Ast::ClassUnicode(_) | Ast::ClassPerl(_) | Ast::ClassBracketed(_) => 1,
        Ast::Repetition(r) => {
            let m = match &r.op.kind {
                RepetitionKind::ZeroOrOne | RepetitionKind::ZeroOrMore => 0,
                RepetitionKind::OneOrMore => 1,
                RepetitionKind::Range(RepetitionRange::Exactly(n)) => *n as usize,
                RepetitionKind::Range(RepetitionRange::AtLeast(n)) => *n as usize,
                RepetitionKind::Range(RepetitionRange::Bounded(n, _)) => *n as usize,
            };
            m * min_len(&r.ast)
        }
        Ast::Group(g) => min_len(&g.ast),
        Ast::Alternation(alt) => alt.asts.iter().map(min_len).min().unwrap_or(0),
        Ast::Concat(c) => c.asts.iter().map(min_len).sum(),
    }
}

fn walk(a: &Ast, c: &mut Census, top: bool) {
    match a {
        Ast::Empty(_) | Ast::Literal(_) | Ast::Dot(_) => {}
        Ast::Flags(_) => c.other_flag_items += 1,
        Ast::Assertion(_) => c.assertions += 1,
        Ast::ClassUnicode(_) | Ast::ClassPerl(_) | Ast::ClassBracketed(_) => c.classes += 1,
        Ast::Repetition(r) => {
            match &r.op.kind {
                RepetitionKind::ZeroOrOne => c.questions += 1,
                RepetitionKind::ZeroOrMore => c.stars += 1,
                RepetitionKind::OneOrMore => c.pluses += 1,
                RepetitionKind::Range(RepetitionRange::Exactly(n)) => c.counted.push((*n, *n, min_len(&r.ast))),
                RepetitionKind::Range(RepetitionRange::AtLeast(n)) => c.counted.push((*n, u32::MAX, min_len(&r.ast))),
                RepetitionKind::Range(RepetitionRange::Bounded(m, n)) => c.counted.push((*m, *n, min_len(&r.ast))),
            }
            walk(&r.ast, c, false);
        }
        Ast::Group(g) => {
            match &g.kind {
                GroupKind::CaptureIndex(_) => c.capturing_groups += 1,
                GroupKind::CaptureName { .. } => c.named_groups += 1,
                GroupKind::NonCapturing(_) => c.non_capturing_groups += 1,
            }
            walk(&g.ast, c, false);
        }
        Ast::Alternation(alt) => {
            c.alternations += 1;
            for x in &alt.asts {
                walk(x, c, false);
            }
        }
        Ast::Concat(cc) => {
            for (i, x) in cc.asts.iter().enumerate() {
                if top && i == 0 {
                    if let Ast::Flags(f) = x {
                        c.leading_flags = flags_string(&f.flags);
                        continue;
                    }
                }
                walk(x, c, false);
            }
        }
    }
}

fn is_caret(a: &Ast) -> bool {
    matches!(a, Ast::Assertion(x) if x.kind == ast::AssertionKind::StartLine)
}
fn is_dollar(a: &Ast) -> bool {
    matches!(a, Ast::Assertion(x) if x.kind == ast::AssertionKind::EndLine)
}

pub fn census(pattern: &str) -> Result<Census, String> {
    let a = parse_ast(pattern)?;
    let mut c = Census::default();
    walk(&a, &mut c, true);
    // first / last item apart from a leading flags item
    let items: Vec<&Ast> = match &a {
        Ast::Concat(cc) => cc.asts.iter().collect(),
        other => vec![other],
    };
    let items: Vec<&Ast> = items.into_iter().filter(|x| !matches!(x, Ast::Flags(_))).collect();
    c.starts_with_caret = items.first().map_or(false, |x| is_caret(x));
    c.ends_with_dollar = items.last().map_or(false, |x| is_dollar(x));
    if let Ast::Flags(f) = &a {
        c.leading_flags = flags_string(&f.flags);
        c.other_flag_items = 0;
    }
    Ok(c)
}

/// Remove ANSI SGR sequences.
pub fn strip_sgr(s: &str) -> String {
    let mut out = String::with_capacity(s.len());
    let b: Vec<char> = s.chars().collect();
    let mut i = 0;
    while i < b.len() {
        if b[i] == '\u{1b}' && i + 1 < b.len() && b[i + 1] == '[' {
            let mut j = i + 2;
            while j < b.len() && (b[j].is_ascii_digit() || b[j] == ';') {
                j += 1;
            }
            if j < b.len() && b[j] == 'm' {
                i = j + 1;
                continue;
            }
        }
        out.push(b[i]);
        i += 1;
    }
    out
}
