//! Drivers: proptest-based generated search (parallel, seeded, shrinking), exhaustive
//! enumeration, statistics, evidence and replay files.

use crate::cfg::Case;
use proptest::test_runner::{Config, RngAlgorithm, TestCaseError, TestError, TestRng, TestRunner};
use serde_json::{json, Value};
use std::collections::{BTreeMap, HashSet};
use std::sync::atomic::{AtomicBool, Ordering};
use std::sync::Mutex;
use std::time::Instant;

#[derive(Clone, Copy, Debug, PartialEq, Eq)]
pub enum Tier {
    Quick,
    Thorough,
}

impl Tier {
    pub fn name(&self) -> &'static str {
        match self {
            Tier::Quick => "quick",
            Tier::Thorough => "thorough",
        }
    }
    pub fn pick<T>(&self, quick: T, thorough: T) -> T {
        match self {
            Tier::Quick => quick,
            Tier::Thorough => thorough,
        }
    }
}

#[derive(Default, Debug)]
pub struct Stats {
    pub evaluations: u64,
    pub nontrivial: HashSet<u64>,
    pub classes: BTreeMap<String, u64>,
    pub samples: Vec<Value>,
    pub known_hits: BTreeMap<String, (u64, Value)>,
    pub inconclusive: BTreeMap<String, (u64, Value)>,
    pub confirmations: u64,
    pub frozen: bool,
}

impl Stats {
    pub fn eval(&mut self) {
        if !self.frozen {
            self.evaluations += 1;
        }
    }
    pub fn evals(&mut self, n: u64) {
        if !self.frozen {
            self.evaluations += n;
        }
    }
    pub fn nontrivial(&mut self, key: u64) {
        if !self.frozen {
            self.nontrivial.insert(key);
        }
    }
    pub fn class(&mut self, label: &str) {
        if !self.frozen {
            *self.classes.entry(label.to_string()).or_default() += 1;
        }
    }
    pub fn sample(&mut self, v: impl FnOnce() -> Value) {
        if !self.frozen && self.samples.len() < 3 {
            self.samples.push(v());
        }
    }
    pub fn known(&mut self, id: &str, example: impl FnOnce() -> Value) {
        if self.frozen {
            return;
        }
        let e = self.known_hits.entry(id.to_string()).or_insert_with(|| (0, example()));
        e.0 += 1;
    }
    pub fn inconclusive(&mut self, why: &str, example: impl FnOnce() -> Value) {
        if self.frozen {
            return;
        }
        let key: String = why.chars().take(60).collect();
        let e = self.inconclusive.entry(key).or_insert_with(|| (0, example()));
        e.0 += 1;
    }
    pub fn confirm(&mut self) {
        if !self.frozen {
            self.confirmations += 1;
        }
    }
    pub fn merge(&mut self, o: Stats) {
        self.evaluations += o.evaluations;
        self.nontrivial.extend(o.nontrivial);
        for (k, v) in o.classes {
            *self.classes.entry(k).or_default() += v;
        }
        for s in o.samples {
            if self.samples.len() < 12 {
                self.samples.push(s);
            }
        }
        for (k, (n, ex)) in o.known_hits {
            let e = self.known_hits.entry(k).or_insert((0, ex));
            e.0 += n;
        }
        for (k, (n, ex)) in o.inconclusive {
            let e = self.inconclusive.entry(k).or_insert((0, ex));
            e.0 += n;
        }
        self.confirmations += o.confirmations;
    }
}

#[derive(Clone, Debug)]
pub struct Failure {
    pub sub: String,
    pub case: Case,
    pub message: String,
}

/// Strategies are not `Sync`; every worker builds its own from this factory.
pub type StrategyFn = dyn Fn() -> proptest::strategy::BoxedStrategy<Case> + Sync;

pub type CaseFn = dyn Fn(&str, &Case, &mut Stats) -> Result<(), String> + Sync;

pub fn workers() -> usize {
    std::env::var("GV_WORKERS")
        .ok()
        .and_then(|s| s.parse().ok())
        .unwrap_or_else(|| std::thread::available_parallelism().map(|n| n.get()).unwrap_or(4).min(16))
}

fn seed_bytes(seed: u64, name: &str, worker: usize) -> [u8; 32] {
    // A fixed mixing function (FNV-1a + splitmix), independent of std's hasher seeds.
    let mut h: u64 = 0xcbf29ce484222325 ^ seed.wrapping_mul(0x9E3779B97F4A7C15);
    for b in name.bytes().chain((worker as u64).to_le_bytes()) {
        h ^= b as u64;
        h = h.wrapping_mul(0x100000001b3);
    }
    let mut out = [0u8; 32];
    let mut x = h;
    for chunk in out.chunks_mut(8) {
        x = x.wrapping_add(0x9E3779B97F4A7C15);
        let mut z = x;
        z = (z ^ (z >> 30)).wrapping_mul(0xBF58476D1CE4E5B9);
        z = (z ^ (z >> 27)).wrapping_mul(0x94D049BB133111EB);
        z ^= z >> 31;
        chunk.copy_from_slice(&z.to_le_bytes());
    }
    out
}

/// Generated search: `total` cases of `strategy` split over the workers; each case is judged by
/// `f(sub, case, stats)`. A failure is shrunk by proptest; the shrunk case of the lowest-numbered
/// failing worker is returned.
pub fn run_generated(
    seed: u64,
    sub: &str,
    strategy: &StrategyFn,
    total: u64,
    stats: &mut Stats,
    f: &CaseFn,
) -> Option<Failure> {
    let nw = workers().max(1);
    let per = (total + nw as u64 - 1) / nw as u64;
    let stop = AtomicBool::new(false);
    let results: Mutex<Vec<(usize, Stats, Option<Failure>)>> = Mutex::new(vec![]);
    std::thread::scope(|scope| {
        for w in 0..nw {
            let stop = &stop;
            let results = &results;
            scope.spawn(move || {
                let config = Config {
                    cases: per as u32,
                    failure_persistence: None,
                    max_shrink_iters: 4096,
                    max_global_rejects: 65536,
                    verbose: 0,
                    ..Config::default()
                };
                let rng = TestRng::from_seed(RngAlgorithm::ChaCha, &seed_bytes(seed, sub, w));
                let mut runner = TestRunner::new_with_rng(config, rng);
                let st = std::cell::RefCell::new(Stats::default());
                let failed = std::cell::Cell::new(false);
                let strategy = strategy();
                let res = runner.run(&strategy, |case| {
                    if !failed.get() && stop.load(Ordering::Relaxed) {
                        return Ok(());
                    }
                    let mut s = st.borrow_mut();
                    match f(sub, &case, &mut s) {
                        Ok(()) => Ok(()),
                        Err(m) => {
                            s.frozen = true;
                            failed.set(true);
                            stop.store(true, Ordering::Relaxed);
                            Err(TestCaseError::fail(m))
                        }
                    }
                });
                let failure = match res {
                    Ok(()) => None,
                    Err(TestError::Fail(reason, case)) => {
                        Some(Failure { sub: sub.to_string(), case, message: reason.message().to_string() })
                    }
                    Err(TestError::Abort(reason)) => {
                        eprintln!("gv: generator aborted in {}: {}", sub, reason.message());
                        None
                    }
                };
                let mut s = st.into_inner();
                s.frozen = false;
                results.lock().unwrap().push((w, s, failure));
            });
        }
    });
    let mut results = results.into_inner().unwrap();
    results.sort_by_key(|r| r.0);
    let mut first = None;
    for (_, s, fail) in results {
        stats.merge(s);
        if first.is_none() {
            first = fail;
        }
    }
    first
}

/// Exhaustive enumeration of `count` items (index -> case), in parallel. Among failing items the
/// one with the smallest (size, index) is reported: it is minimal within the universe.
pub fn run_exhaustive(
    sub: &str,
    count: u64,
    make: &(dyn Fn(u64) -> Case + Sync),
    stats: &mut Stats,
    f: &CaseFn,
) -> Option<Failure> {
    let nw = workers().max(1) as u64;
    let results: Mutex<Vec<(Stats, Option<(usize, u64, Failure)>)>> = Mutex::new(vec![]);
    let found = std::sync::atomic::AtomicU64::new(0);
    std::thread::scope(|scope| {
        for w in 0..nw {
            let results = &results;
            let found = &found;
            scope.spawn(move || {
                let mut st = Stats::default();
                let mut best: Option<(usize, u64, Failure)> = None;
                let mut i = w;
                while i < count {
                    // keep enumerating after a failure only briefly: a universe with a systematic
                    // defect would otherwise spend its time collecting thousands of failures
                    if found.load(Ordering::Relaxed) >= 64 {
                        break;
                    }
                    let case = make(i);
                    if let Err(m) = f(sub, &case, &mut st) {
                        found.fetch_add(1, Ordering::Relaxed);
                        let size: usize = case.tcs.iter().map(|t| t.chars().count() + 1).sum();
                        if best.as_ref().map_or(true, |b| (size, i) < (b.0, b.1)) {
                            best = Some((size, i, Failure { sub: sub.to_string(), case, message: m }));
                        }
                    }
                    i += nw;
                }
                results.lock().unwrap().push((st, best));
            });
        }
    });
    let mut best: Option<(usize, u64, Failure)> = None;
    for (s, b) in results.into_inner().unwrap() {
        stats.merge(s);
        if let Some(b) = b {
            if best.as_ref().map_or(true, |x| (b.0, b.1) < (x.0, x.1)) {
                best = Some(b);
            }
        }
    }
    best.map(|b| b.2)
}

// ---------------------------------------------------------------------------------------------
// Per-check context: collects sub-check results, writes evidence and replay files.
// ---------------------------------------------------------------------------------------------

pub struct Ctx {
    pub prop: &'static str,
    pub tier: Tier,
    pub seed: u64,
    pub stats: Stats,
    pub failures: Vec<Failure>,
    pub subchecks: Vec<Value>,
    pub exhaustive: Vec<String>,
    pub start: Instant,
    pub infra_errors: Vec<String>,
    pub extra: BTreeMap<String, Value>,
    /// true only if the property's whole quantified domain (not just sub-universes) was enumerated
    pub exhaustive_domain: bool,
}

impl Ctx {
    pub fn new(prop: &'static str, tier: Tier, seed: u64) -> Ctx {
        Ctx {
            prop,
            tier,
            seed,
            stats: Stats::default(),
            failures: vec![],
            subchecks: vec![],
            exhaustive: vec![],
            start: Instant::now(),
            infra_errors: vec![],
            extra: BTreeMap::new(),
            exhaustive_domain: false,
        }
    }

    fn note_sub(&mut self, sub: &str, kind: &str, before: u64, t0: Instant, failed: bool) {
        self.subchecks.push(json!({
            "sub": sub, "kind": kind, "evaluations": self.stats.evaluations - before,
            "wall_s": (t0.elapsed().as_secs_f64() * 1000.0).round() / 1000.0, "failed": failed,
        }));
    }

    pub fn generated(&mut self, sub: &str, strategy: &StrategyFn, total: u64, f: &CaseFn) {
        if !self.failures.is_empty() {
            return; // stop at the first violation; the rest would only repeat it
        }
        let before = self.stats.evaluations;
        let t0 = Instant::now();
        let fail = run_generated(self.seed, sub, strategy, total, &mut self.stats, f);
        self.note_sub(sub, "generated", before, t0, fail.is_some());
        if let Some(f) = fail {
            self.failures.push(f);
        }
    }

    pub fn exhaustive(&mut self, sub: &str, count: u64, make: &(dyn Fn(u64) -> Case + Sync), f: &CaseFn) {
        if !self.failures.is_empty() {
            return;
        }
        let before = self.stats.evaluations;
        let t0 = Instant::now();
        let fail = run_exhaustive(sub, count, make, &mut self.stats, f);
        self.note_sub(sub, "exhaustive", before, t0, fail.is_some());
        if fail.is_none() {
            self.exhaustive.push(format!("{} ({} items)", sub, count));
        }
        if let Some(f) = fail {
            self.failures.push(f);
        }
    }

    /// Run `f` on fixed cases (regression corpus), sequentially.
    pub fn fixed(&mut self, sub: &str, cases: &[Case], f: &CaseFn) {
        if !self.failures.is_empty() {
            return;
        }
        let before = self.stats.evaluations;
        let t0 = Instant::now();
        let mut st = Stats::default();
        let mut fail = None;
        for c in cases {
            if let Err(m) = f(sub, c, &mut st) {
                fail = Some(Failure { sub: sub.to_string(), case: c.clone(), message: m });
                break;
            }
        }
        self.stats.merge(st);
        self.note_sub(sub, "fixed", before, t0, fail.is_some());
        if let Some(f) = fail {
            self.failures.push(f);
        }
    }
}

pub fn replay_json(prop: &str, f: &Failure) -> Value {
    json!({
        "property": prop,
        "sub": f.sub,
        "case": f.case.to_json(),
        "message": f.message,
    })
}

// ---------------------------------------------------------------------------------------------
// Coverage-guided campaign (cargo-fuzz / libFuzzer), thorough tier
// ---------------------------------------------------------------------------------------------

impl Ctx {
    /// Runs `runs_per_job` x `jobs` executions of a libFuzzer target whose in-target oracles are
    /// restricted to this property. A crashing input is decoded and re-judged in-process by the
    /// same oracle; only then does it become a violation (with a normal replay case).
    pub fn fuzz_campaign(&mut self, target: &str, runs_per_job: u64) {
        if !self.failures.is_empty() {
            return;
        }
        let root = crate::root();
        let t0 = Instant::now();
        let work = std::env::temp_dir().join(format!("gv-fuzz-{}-{}", self.prop, std::process::id()));
        let corpus = work.join("corpus");
        let artifacts = work.join("artifacts");
        let _ = std::fs::remove_dir_all(&work);
        let _ = std::fs::create_dir_all(&corpus);
        let _ = std::fs::create_dir_all(&artifacts);
        // seed corpus: committed files (if any) for this target
        if let Ok(rd) = std::fs::read_dir(format!("{}/corpus/{}", root, target)) {
            for e in rd.flatten() {
                let _ = std::fs::copy(e.path(), corpus.join(e.file_name()));
            }
        }
        let jobs = workers().max(1);
        let target_dir = format!("{}/.target/fuzz", root);
        let mut cmd = std::process::Command::new("cargo");
        cmd.current_dir(&work)
            .args(["+nightly", "fuzz", "run", "-O", "-s", "none", "--fuzz-dir", &format!("{}/fuzz", root), "--target-dir", &target_dir, target])
            .arg(&corpus)
            .arg("--")
            .arg(format!("-runs={}", runs_per_job))
            .arg(format!("-seed={}", (self.seed % 0x7fff_ffff) + 1))
            .args(["-max_len=96", "-len_control=0", "-timeout=300", "-print_final_stats=1", "-rss_limit_mb=4096"])
            .arg(format!("-jobs={}", jobs))
            .arg(format!("-workers={}", jobs))
            .arg(format!("-artifact_prefix={}/", artifacts.display()))
            .env("RUSTFLAGS", "--cfg grex_verif")
            .env("CARGO_NET_OFFLINE", "true")
            .env("GV_FUZZ_PROPS", self.prop)
            .env("GV_ROOT", &root)
            .env("RUST_BACKTRACE", "0")
            .stdin(std::process::Stdio::null());
        // Watchdog: libFuzzer's own -timeout handler can deadlock inside malloc (observed under heavy
        // load), which would hang the whole check. The campaign runs in its own process group and is
        // killed after a generous deadline; a killed campaign is "inconclusive", never a verdict.
        use std::os::unix::process::CommandExt;
        cmd.process_group(0);
        let stderr_path = work.join("cargo-fuzz.stderr");
        if let Ok(f) = std::fs::File::create(&stderr_path) {
            cmd.stderr(f);
        }
        cmd.stdout(std::process::Stdio::null());
        let mut child = match cmd.spawn() {
            Ok(c) => c,
            Err(e) => {
                self.infra_errors.push(format!("cannot start cargo fuzz: {}", e));
                return;
            }
        };
        let deadline = Instant::now() + std::time::Duration::from_secs(900 + runs_per_job / 10);
        let mut killed = false;
        loop {
            match child.try_wait() {
                Ok(Some(_)) => break,
                Ok(None) => {
                    if Instant::now() > deadline {
                        let _ = std::process::Command::new("kill").arg("-KILL").arg(format!("-{}", child.id())).status();
                        let _ = child.wait();
                        killed = true;
                        break;
                    }
                    std::thread::sleep(std::time::Duration::from_millis(500));
                }
                Err(_) => break,
            }
        }
        if killed {
            self.stats.inconclusive("fuzz: campaign killed by the watchdog (hung libFuzzer job)", || json!({"target": target}));
        }
        struct Out {
            stderr: Vec<u8>,
        }
        let out = Out { stderr: std::fs::read(&stderr_path).unwrap_or_default() };
        // executed units: summed from the per-job logs libFuzzer writes into the cwd
        let mut executed: u64 = 0;
        let mut logs = 0;
        if let Ok(rd) = std::fs::read_dir(&work) {
            for e in rd.flatten() {
                let name = e.file_name().to_string_lossy().to_string();
                if name.starts_with("fuzz-") && name.ends_with(".log") {
                    logs += 1;
                    if let Ok(text) = std::fs::read_to_string(e.path()) {
                        for l in text.lines() {
                            if let Some(v) = l.strip_prefix("stat::number_of_executed_units:") {
                                executed += v.trim().parse::<u64>().unwrap_or(0);
                            }
                        }
                    }
                }
            }
        }
        let mut crashes = vec![];
        if let Ok(rd) = std::fs::read_dir(&artifacts) {
            for e in rd.flatten() {
                crashes.push(e.path());
            }
        }
        crashes.sort();
        let mut slow = 0;
        let mut unconfirmed = 0;
        let before = self.stats.evaluations;
        self.stats.evals(executed);
        for c in &crashes {
            let name = c.file_name().unwrap().to_string_lossy().to_string();
            if name.starts_with("timeout-") || name.starts_with("slow-unit-") || name.starts_with("oom-") {
                slow += 1;
                continue;
            }
            let data = std::fs::read(c).unwrap_or_default();
            let case = crate::fuzzdec::decode(&data);
            let mut st = Stats::default();
            match crate::checks::fuzz_oracle(target, &case, &mut st, Some(self.prop)).map_err(|e| e.2) {
                Err(m) if !m.starts_with("INFRA") => {
                    self.failures.push(Failure { sub: "fuzz".into(), case, message: m });
                    break;
                }
                _ => unconfirmed += 1,
            }
        }
        if executed == 0 && self.failures.is_empty() && !killed {
            let tail: String = String::from_utf8_lossy(&out.stderr).lines().rev().take(6).collect::<Vec<_>>().join(" | ");
            self.infra_errors.push(format!("fuzz campaign {} executed nothing (build failure?): {}", target, tail));
        }
        if slow > 0 {
            self.stats.inconclusive("fuzz: timeout/slow/oom artifacts (resource, not a verdict)", || json!({"count": slow}));
        }
        if unconfirmed > 0 {
            self.stats.inconclusive("fuzz: crash artifact not reproduced by the in-process oracle", || json!({"count": unconfirmed}));
        }
        self.extra.insert(
            "fuzz_campaign".into(),
            json!({"target": target, "engine": "libFuzzer via cargo-fuzz (-O, no sanitizer; grex has no unsafe code)", "jobs": jobs, "runs_per_job": runs_per_job, "executed_units": executed, "job_logs": logs, "crash_artifacts": crashes.len(), "oracle_filter": self.prop}),
        );
        self.note_sub(&format!("fuzz:{}", target), "coverage-guided", before, t0, !self.failures.is_empty());
        let _ = std::fs::remove_dir_all(&work);
    }
}
