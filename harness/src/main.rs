fn main() {
    gv::main_entry()
}
