//! Symbolic language comparison over Unicode scalar values.
//! Regex HIR (regex-syntax) and finite "spec" languages are turned into epsilon-NFAs whose
//! edges carry character sets; equivalence is decided by a product subset construction over
//! the minterms of all sets involved. A difference yields a concrete witness string.

use regex_syntax::hir::{Class, Hir, HirKind, Look};
use std::collections::{BTreeMap, HashMap, VecDeque};

pub type CharSet = Vec<(u32, u32)>; // sorted, disjoint, inclusive

pub fn single(c: char) -> CharSet {
    vec![(c as u32, c as u32)]
}

pub fn set_contains(s: &CharSet, c: char) -> bool {
    let c = c as u32;
    s.binary_search_by(|&(lo, hi)| {
        if hi < c {
            std::cmp::Ordering::Less
        } else if lo > c {
            std::cmp::Ordering::Greater
        } else {
            std::cmp::Ordering::Equal
        }
    })
    .is_ok()
}

#[derive(Default, Debug)]
pub struct Nfa {
    pub eps: Vec<Vec<usize>>,
    pub trans: Vec<Vec<(usize, usize)>>, // (set id, target)
    pub sets: Vec<CharSet>,
    /// fingerprint -> candidate set ids (full equality is checked on the candidates); hashing a
    /// 770-range class such as \w with SipHash for every transition dominated the run time
    pub set_ids: HashMap<u64, Vec<usize>>,
    pub start: usize,
    pub accept: usize,
}

impl Nfa {
    pub fn new_state(&mut self) -> usize {
        self.eps.push(vec![]);
        self.trans.push(vec![]);
        self.eps.len() - 1
    }
    pub fn set_id(&mut self, s: CharSet) -> usize {
        let mut fp: u64 = 0xcbf29ce484222325 ^ (s.len() as u64);
        for &(lo, hi) in s.iter().take(3).chain(s.iter().rev().take(3)) {
            fp = (fp ^ lo as u64).wrapping_mul(0x100000001b3);
            fp = (fp ^ hi as u64).wrapping_mul(0x100000001b3);
        }
        if let Some(cands) = self.set_ids.get(&fp) {
            for &i in cands {
                if self.sets[i] == s {
                    return i;
                }
            }
        }
        let i = self.sets.len();
        self.sets.push(s);
        self.set_ids.entry(fp).or_default().push(i);
        i
    }
    pub fn state_count(&self) -> usize {
        self.eps.len()
    }
}

#[derive(Debug)]
pub enum LangError {
    Unsupported(String),
}

/// Split `^body$` into (has_start, has_end, body). Only top-level anchors are recognised.
pub fn strip_anchors(hir: &Hir) -> (bool, bool, Hir) {
    match hir.kind() {
        HirKind::Look(Look::Start) => (true, false, Hir::empty()),
        HirKind::Look(Look::End) => (false, true, Hir::empty()),
        HirKind::Concat(items) => {
            let mut items: Vec<Hir> = items.clone();
            let mut s = false;
            let mut e = false;
            if let Some(HirKind::Look(Look::Start)) = items.first().map(|h| h.kind()) {
                s = true;
                items.remove(0);
            }
            if let Some(HirKind::Look(Look::End)) = items.last().map(|h| h.kind()) {
                e = true;
                items.pop();
            }
            (s, e, Hir::concat(items))
        }
        _ => (false, false, hir.clone()),
    }
}

pub fn hir_to_nfa(hir: &Hir) -> Result<Nfa, LangError> {
    let mut nfa = Nfa::default();
    let s = nfa.new_state();
    let a = nfa.new_state();
    nfa.start = s;
    nfa.accept = a;
    build(&mut nfa, hir, s, a)?;
    Ok(nfa)
}

fn build(n: &mut Nfa, hir: &Hir, from: usize, to: usize) -> Result<(), LangError> {
    match hir.kind() {
        HirKind::Empty => {
            n.eps[from].push(to);
        }
        HirKind::Literal(lit) => {
            let s = std::str::from_utf8(&lit.0)
                .map_err(|_| LangError::Unsupported("non-utf8 literal".into()))?;
            let chars: Vec<char> = s.chars().collect();
            let mut cur = from;
            for (i, c) in chars.iter().enumerate() {
                let next = if i + 1 == chars.len() { to } else { n.new_state() };
                let id = n.set_id(single(*c));
                n.trans[cur].push((id, next));
                cur = next;
            }
            if chars.is_empty() {
                n.eps[from].push(to);
            }
        }
        HirKind::Class(Class::Unicode(cls)) => {
            let set: CharSet = cls
                .ranges()
                .iter()
                .map(|r| (r.start() as u32, r.end() as u32))
                .collect();
            let id = n.set_id(set);
            n.trans[from].push((id, to));
        }
        HirKind::Class(Class::Bytes(cls)) => {
            if cls.ranges().iter().any(|r| r.end() > 0x7f) {
                return Err(LangError::Unsupported("non-ascii byte class".into()));
            }
            let set: CharSet = cls
                .ranges()
                .iter()
                .map(|r| (r.start() as u32, r.end() as u32))
                .collect();
            let id = n.set_id(set);
            n.trans[from].push((id, to));
        }
        HirKind::Look(l) => {
            return Err(LangError::Unsupported(format!("look-around {:?} inside body", l)));
        }
        HirKind::Capture(c) => build(n, &c.sub, from, to)?,
        HirKind::Concat(items) => {
            let mut cur = from;
            for (i, it) in items.iter().enumerate() {
                let next = if i + 1 == items.len() { to } else { n.new_state() };
                build(n, it, cur, next)?;
                cur = next;
            }
            if items.is_empty() {
                n.eps[from].push(to);
            }
        }
        HirKind::Alternation(items) => {
            for it in items {
                let a = n.new_state();
                let b = n.new_state();
                n.eps[from].push(a);
                build(n, it, a, b)?;
                n.eps[b].push(to);
            }
        }
        HirKind::Repetition(rep) => {
            let min = rep.min as usize;
            if min > 2000 || rep.max.map_or(false, |m| m > 2000) {
                return Err(LangError::Unsupported("huge counted repetition".into()));
            }
            let mut cur = from;
            for _ in 0..min {
                let next = n.new_state();
                build(n, &rep.sub, cur, next)?;
                cur = next;
            }
            match rep.max {
                None => {
                    // cur -eps-> loop; loop -sub-> loop2 -eps-> loop; loop -eps-> to
                    let l = n.new_state();
                    let l2 = n.new_state();
                    n.eps[cur].push(l);
                    build(n, &rep.sub, l, l2)?;
                    n.eps[l2].push(l);
                    n.eps[l].push(to);
                }
                Some(max) => {
                    let max = max as usize;
                    for _ in min..max {
                        let next = n.new_state();
                        n.eps[cur].push(to);
                        build(n, &rep.sub, cur, next)?;
                        cur = next;
                    }
                    n.eps[cur].push(to);
                }
            }
        }
    }
    Ok(())
}

/// A finite language given as a list of sequences of character sets.
pub fn seqs_to_nfa(seqs: &[Vec<CharSet>]) -> Nfa {
    let mut n = Nfa::default();
    let s = n.new_state();
    let a = n.new_state();
    n.start = s;
    n.accept = a;
    for seq in seqs {
        let mut cur = s;
        for set in seq {
            let next = n.new_state();
            let id = n.set_id(set.clone());
            n.trans[cur].push((id, next));
            cur = next;
        }
        n.eps[cur].push(a);
    }
    n
}

#[derive(Debug, Clone, PartialEq, Eq)]
pub enum Diff {
    Equal,
    OnlyLeft(String),
    OnlyRight(String),
}

struct Minterms {
    reps: Vec<char>,
    // for each nfa (0/1), for each set id, list of minterm ids
    map: [Vec<Vec<usize>>; 2],
}

fn minterms(a: &Nfa, b: &Nfa) -> Minterms {
    let mut points: Vec<u32> = vec![];
    for n in [a, b] {
        for s in &n.sets {
            for &(lo, hi) in s {
                points.push(lo);
                points.push(hi + 1);
            }
        }
    }
    points.sort_unstable();
    points.dedup();
    let nsets = a.sets.len() + b.sets.len();
    let words = (nsets + 63) / 64;
    // signature per elementary interval [points[i], points[i+1])
    let nint = points.len().saturating_sub(1);
    let mut sig = vec![0u64; nint * words];
    let mut k = 0;
    for n in [a, b] {
        for s in &n.sets {
            for &(lo, hi) in s {
                let i0 = points.binary_search(&lo).unwrap();
                let i1 = points.binary_search(&(hi + 1)).unwrap();
                for i in i0..i1 {
                    sig[i * words + k / 64] |= 1u64 << (k % 64);
                }
            }
            k += 1;
        }
    }
    let mut ids: BTreeMap<Vec<u64>, usize> = BTreeMap::new();
    let mut reps = vec![];
    let mut map: [Vec<Vec<usize>>; 2] =
        [vec![vec![]; a.sets.len()], vec![vec![]; b.sets.len()]];
    for i in 0..nint {
        let sg = sig[i * words..(i + 1) * words].to_vec();
        if sg.iter().all(|&w| w == 0) {
            continue;
        }
        // skip surrogate gap representative
        let mut rep = points[i];
        if (0xD800..=0xDFFF).contains(&rep) {
            rep = 0xE000;
            if rep >= points[i + 1] {
                continue;
            }
        }
        let rep = match char::from_u32(rep) {
            Some(c) => c,
            None => continue,
        };
        if !ids.contains_key(&sg) {
            let id = ids.len();
            ids.insert(sg.clone(), id);
            reps.push(rep);
            for k in 0..nsets {
                if sg[k / 64] >> (k % 64) & 1 == 1 {
                    if k < a.sets.len() {
                        map[0][k].push(id);
                    } else {
                        map[1][k - a.sets.len()].push(id);
                    }
                }
            }
        }
    }
    Minterms { reps, map }
}

fn closure(n: &Nfa, states: &mut Vec<usize>) {
    let mut seen = vec![false; n.state_count()];
    let mut stack: Vec<usize> = states.clone();
    for &s in states.iter() {
        seen[s] = true;
    }
    while let Some(s) = stack.pop() {
        for &t in &n.eps[s] {
            if !seen[t] {
                seen[t] = true;
                states.push(t);
                stack.push(t);
            }
        }
    }
    states.sort_unstable();
    states.dedup();
}

fn step(n: &Nfa, mt: &[Vec<usize>], states: &[usize], m: usize) -> Vec<usize> {
    let mut out = vec![];
    for &s in states {
        for &(set, t) in &n.trans[s] {
            if mt[set].contains(&m) {
                out.push(t);
            }
        }
    }
    out.sort_unstable();
    out.dedup();
    closure(n, &mut out);
    out
}

pub struct CmpStats {
    pub product_states: usize,
    pub minterms: usize,
}

/// Compare L(a) and L(b). `limit` bounds the number of product states explored.
pub fn compare(a: &Nfa, b: &Nfa, limit: usize) -> Result<(Diff, CmpStats), LangError> {
    let mt = minterms(a, b);
    let nm = mt.reps.len();
    let mut sa = vec![a.start];
    closure(a, &mut sa);
    let mut sb = vec![b.start];
    closure(b, &mut sb);
    let mut index: HashMap<(Vec<usize>, Vec<usize>), usize> = HashMap::new();
    let mut nodes: Vec<(Vec<usize>, Vec<usize>, usize, usize)> = vec![]; // (sa, sb, parent, minterm)
    let mut q = VecDeque::new();
    index.insert((sa.clone(), sb.clone()), 0);
    nodes.push((sa, sb, usize::MAX, usize::MAX));
    q.push_back(0usize);
    while let Some(i) = q.pop_front() {
        let (xa, xb) = (nodes[i].0.clone(), nodes[i].1.clone());
        let acc_a = xa.binary_search(&a.accept).is_ok();
        let acc_b = xb.binary_search(&b.accept).is_ok();
        if acc_a != acc_b {
            let mut w = vec![];
            let mut cur = i;
            while nodes[cur].2 != usize::MAX {
                w.push(mt.reps[nodes[cur].3]);
                cur = nodes[cur].2;
            }
            w.reverse();
            let s: String = w.into_iter().collect();
            let stats = CmpStats { product_states: nodes.len(), minterms: nm };
            return Ok((if acc_a { Diff::OnlyLeft(s) } else { Diff::OnlyRight(s) }, stats));
        }
        for m in 0..nm {
            let ya = step(a, &mt.map[0], &xa, m);
            let yb = step(b, &mt.map[1], &xb, m);
            if ya.is_empty() && yb.is_empty() {
                continue;
            }
            let key = (ya, yb);
            if !index.contains_key(&key) {
                let id = nodes.len();
                if id > limit {
                    return Err(LangError::Unsupported("product state limit".into()));
                }
                index.insert(key.clone(), id);
                nodes.push((key.0, key.1, i, m));
                q.push_back(id);
            }
        }
    }
    Ok((Diff::Equal, CmpStats { product_states: nodes.len(), minterms: nm }))
}

/// Direct membership of a string in a finite spec language (independent of the automata).
pub fn seqs_contain(seqs: &[Vec<CharSet>], w: &str) -> bool {
    let cs: Vec<char> = w.chars().collect();
    seqs.iter().any(|seq| {
        seq.len() == cs.len() && seq.iter().zip(cs.iter()).all(|(s, &c)| set_contains(s, c))
    })
}

/// Build an NFA from an explicit automaton whose edges read `unit` repeated `min..=max` times.
pub fn automaton_to_nfa(
    state_count: usize,
    start: usize,
    finals: &[usize],
    edges: &[(usize, usize, Vec<CharSet>, u32, u32)],
) -> Nfa {
    let mut n = Nfa::default();
    for _ in 0..state_count {
        n.new_state();
    }
    let acc = n.new_state();
    n.start = start;
    n.accept = acc;
    for &f in finals {
        n.eps[f].push(acc);
    }
    for (from, to, unit, min, max) in edges {
        // chain: from -unit^min-> m ; then (max-min) optional copies, each may exit to `to`
        let mut cur = *from;
        let total = *max as usize;
        for k in 0..total {
            // one copy of unit from cur to next
            let next = n.new_state();
            let mut c = cur;
            for (i, set) in unit.iter().enumerate() {
                let t = if i + 1 == unit.len() { next } else { n.new_state() };
                let id = n.set_id(set.clone());
                n.trans[c].push((id, t));
                c = t;
            }
            if unit.is_empty() {
                n.eps[cur].push(next);
            }
            cur = next;
            if k + 1 >= *min as usize {
                n.eps[cur].push(*to);
            }
        }
        if total == 0 {
            n.eps[cur].push(*to);
        }
    }
    n
}

// ---------------------------------------------------------------------------------------------
// Helpers shared by the checks
// ---------------------------------------------------------------------------------------------

use regex_syntax::hir::{ClassUnicode, ClassUnicodeRange};

/// The regex crate's reading of a pattern (same parser defaults as `Regex::new`).
pub fn parse(pattern: &str) -> Result<Hir, String> {
    match regex_syntax::Parser::new().parse(pattern) {
        Ok(h) => Ok(h),
        // the nesting limit is a resource limit of the parser, not a syntax verdict
        Err(e) if e.to_string().contains("nest") => parse_big(pattern),
        Err(e) => Err(e.to_string()),
    }
}

/// Parse with a raised nesting limit (for very large, syntactically valid patterns).
pub fn parse_big(pattern: &str) -> Result<Hir, String> {
    regex_syntax::ParserBuilder::new()
        .nest_limit(1_000_000)
        .build()
        .parse(pattern)
        .map_err(|e| e.to_string())
}

/// A matcher deciding "the whole of `text` is matched by `hir`" on the real engine
/// (regex-automata's meta engine, the one behind `regex::Regex`), independent of search order.
pub struct FullMatcher {
    re: regex_automata::meta::Regex,
}

impl FullMatcher {
    pub fn new(body: &Hir) -> Result<Self, String> {
        let anchored = Hir::concat(vec![
            Hir::look(Look::Start),
            body.clone(),
            Hir::look(Look::End),
        ]);
        let re = regex_automata::meta::Builder::new()
            .configure(
                regex_automata::meta::Config::new()
                    .nfa_size_limit(Some(200 * (1 << 20)))
                    .hybrid_cache_capacity(8 * (1 << 20)),
            )
            .build_from_hir(&anchored)
            .map_err(|e| e.to_string())?;
        Ok(Self { re })
    }
    pub fn is_full_match(&self, text: &str) -> bool {
        self.re.is_match(text)
    }
}

pub fn ranges_of(cls: &ClassUnicode) -> CharSet {
    cls.ranges().iter().map(|r| (r.start() as u32, r.end() as u32)).collect()
}

pub fn class_of(set: &CharSet) -> ClassUnicode {
    ClassUnicode::new(set.iter().filter_map(|&(a, b)| {
        // skip the surrogate gap if a range was built across it
        let (a, b) = (a, b);
        match (char::from_u32(a), char::from_u32(b)) {
            (Some(x), Some(y)) => Some(ClassUnicodeRange::new(x, y)),
            _ => None,
        }
    }))
}

/// Closure of a set under the regex crate's simple case folding.
pub fn fold(set: &CharSet) -> CharSet {
    let mut c = class_of(set);
    c.case_fold_simple();
    ranges_of(&c)
}

/// The regex crate's Unicode class for a pattern such as `\d`.
pub fn perl_class(pattern: &str) -> CharSet {
    match parse(pattern).expect("class parses").kind() {
        HirKind::Class(Class::Unicode(c)) => ranges_of(c),
        other => panic!("not a class: {:?}", other),
    }
}

pub fn set_size(s: &CharSet) -> u64 {
    s.iter().map(|&(a, b)| (b - a + 1) as u64).sum()
}

/// Some member of `s` other than `not`, preferring a "far away" one.
pub fn other_member(s: &CharSet, not: char) -> Option<char> {
    for &(lo, hi) in s.iter().rev() {
        for cand in [hi, lo, (lo + hi) / 2] {
            if let Some(c) = char::from_u32(cand) {
                if c != not {
                    return Some(c);
                }
            }
        }
    }
    None
}

pub fn compare_default(a: &Nfa, b: &Nfa) -> Result<Diff, String> {
    match compare(a, b, 200_000) {
        Ok((d, _)) => Ok(d),
        Err(LangError::Unsupported(s)) => Err(s),
    }
}

/// `Regex::new` as the verdict on SYNTAX: a pattern that is merely too big for the default size
/// limit (a resource limit, not part of any property) is retried with a raised limit.
pub fn compile_regex(pattern: &str) -> Result<regex::Regex, String> {
    match regex::Regex::new(pattern) {
        Ok(r) => Ok(r),
        Err(regex::Error::CompiledTooBig(_)) => regex::RegexBuilder::new(pattern)
            .size_limit(1 << 31)
            .dfa_size_limit(1 << 27)
            .build()
            .map_err(|e| format!("RESOURCE: {}", e.to_string().lines().last().unwrap_or(""))),
        Err(e) => Err(e.to_string().lines().last().unwrap_or("").to_string()),
    }
}
