//! Decoder shared by the libFuzzer targets and `gv fuzz-replay`: bytes -> (settings, test cases).
//! Bytes are consumed through `arbitrary::Unstructured`-like primitives implemented here (the
//! harness itself must not depend on the `arbitrary` crate's version in the fuzz workspace).

use crate::cfg::{Case, Cfg};
use crate::gen::POOLS;

struct Bytes<'a> {
    data: &'a [u8],
    pos: usize,
}

impl<'a> Bytes<'a> {
    fn u8(&mut self) -> u8 {
        let b = self.data.get(self.pos).copied().unwrap_or(0);
        self.pos += 1;
        b
    }
    fn rest(&self) -> usize {
        self.data.len().saturating_sub(self.pos)
    }
    fn take(&mut self, n: usize) -> &'a [u8] {
        let end = (self.pos + n).min(self.data.len());
        let s = &self.data[self.pos.min(self.data.len())..end];
        self.pos = end;
        s
    }
}

/// Layout: 4 bytes flags (15 bits, two masks ANDed), 1 byte thresholds (two nibbles mapped to a small set),
/// 1 byte = number of test cases (1..=6) and mode bits; then per test case: 1 byte length/mode,
/// followed by its bytes (lossy UTF-8) or pool indices.
pub fn decode(data: &[u8]) -> Case {
    let mut b = Bytes { data, pos: 0 };
    // two masks ANDed: every flag is on in about a quarter of random inputs (uniform flags would put
    // ~7 flags on each case, which makes every build take milliseconds and hides single-flag paths)
    let f = ((b.u8() as u32) | ((b.u8() as u32) << 8)) & ((b.u8() as u32) | ((b.u8() as u32) << 8));
    let mut cfg = Cfg::from_mask(f & 0x7fff);
    if !cfg.escape {
        cfg.surrogates = false;
    }
    let th = b.u8();
    let table = [1u32, 1, 1, 1, 1, 1, 1, 1, 2, 2, 3, 4, 5, 6, 17, 1000];
    cfg.min_rep = table[(th & 15) as usize];
    cfg.min_len = table[(th >> 4) as usize];
    let head = b.u8();
    let n = (head & 7) as usize % 6 + 1;
    let pool = &POOLS[(head >> 3) as usize % POOLS.len()];
    let mut tcs = vec![];
    for _ in 0..n {
        if b.rest() == 0 && !tcs.is_empty() {
            break;
        }
        let h = b.u8();
        let len = (h & 0x0f) as usize;
        let t = if h & 0x80 != 0 {
            // pool symbols
            let idx = b.take(len);
            idx.iter().map(|&i| pool.syms[i as usize % pool.syms.len()]).collect::<String>()
        } else if h & 0x40 != 0 && !tcs.is_empty() {
            // derived: prefix of an earlier test case + bytes
            let base: &String = &tcs[(h as usize >> 5 & 1) % tcs.len()];
            let k = b.u8() as usize;
            let mut s: String = base.chars().take(k % (base.chars().count() + 1)).collect();
            s.push_str(&String::from_utf8_lossy(b.take(len.min(8))));
            s
        } else {
            String::from_utf8_lossy(b.take(len)).to_string()
        };
        tcs.push(t);
    }
    if tcs.is_empty() {
        tcs.push(String::new());
    }
    Case::new(tcs, cfg)
}
