//! Known findings: a committed, read-only list. A finding suppresses a violation only if the
//! check re-verified its mechanistic signature on the failing case AND the finding is listed
//! for the property being checked. Nothing is ever added at run time.

use serde::Deserialize;
use serde_json::Value;
use std::sync::OnceLock;

#[derive(Debug, Deserialize, Clone)]
pub struct Finding {
    pub id: String,
    pub properties: Vec<String>,
    pub what: String,
    #[serde(default)]
    pub signature: String,
    #[serde(default)]
    pub witness: Value,
    #[serde(default)]
    pub rationale: String,
}

#[derive(Debug, Deserialize, Default)]
pub struct KnownFile {
    #[serde(default)]
    pub known: Vec<Finding>,
    #[serde(default)]
    pub fixed: Vec<String>,
}

static KNOWN: OnceLock<KnownFile> = OnceLock::new();

pub fn load(root: &str) {
    let path = format!("{}/known_findings.json", root);
    let kf = match std::fs::read_to_string(&path) {
        Ok(s) => serde_json::from_str::<KnownFile>(&s).unwrap_or_else(|e| {
            eprintln!("gv: cannot parse {}: {}", path, e);
            std::process::exit(2);
        }),
        Err(_) => KnownFile::default(),
    };
    let _ = KNOWN.set(kf);
}

pub fn get() -> &'static KnownFile {
    KNOWN.get_or_init(KnownFile::default)
}

pub fn allows(prop: &str, id: &str) -> bool {
    get().known.iter().any(|f| f.id == id && f.properties.iter().any(|p| p == prop))
}

pub fn listed_for(prop: &str) -> Vec<&'static Finding> {
    get().known.iter().filter(|f| f.properties.iter().any(|p| p == prop)).collect()
}
