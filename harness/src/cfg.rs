//! Settings model mirroring the public builder surface, the case type shared by all checks,
//! and the only place where grex is actually called.

use grex::verif_hooks::{Automaton, Event, Label};
use grex::RegExpBuilder;
use serde::{Deserialize, Serialize};
use serde_json::Value;
use std::panic::{catch_unwind, AssertUnwindSafe};

#[derive(Clone, Debug, PartialEq, Eq, Hash, PartialOrd, Ord, Serialize, Deserialize)]
#[serde(default)]
pub struct Cfg {
    pub digits: bool,
    pub non_digits: bool,
    pub spaces: bool,
    pub non_spaces: bool,
    pub words: bool,
    pub non_words: bool,
    pub repetitions: bool,
    pub ignore_case: bool,
    pub capture: bool,
    pub escape: bool,
    pub surrogates: bool,
    pub verbose: bool,
    pub no_start: bool,
    pub no_end: bool,
    pub colour: bool,
    pub min_rep: u32,
    pub min_len: u32,
}

impl Default for Cfg {
    fn default() -> Self {
        Cfg {
            digits: false,
            non_digits: false,
            spaces: false,
            non_spaces: false,
            words: false,
            non_words: false,
            repetitions: false,
            ignore_case: false,
            capture: false,
            escape: false,
            surrogates: false,
            verbose: false,
            no_start: false,
            no_end: false,
            colour: false,
            min_rep: 1,
            min_len: 1,
        }
    }
}

pub const FLAG_NAMES: [&str; 15] = [
    "digits", "non_digits", "spaces", "non_spaces", "words", "non_words", "repetitions",
    "ignore_case", "capture", "escape", "surrogates", "verbose", "no_start", "no_end", "colour",
];

impl Cfg {
    pub fn flag_mut(&mut self, i: usize) -> &mut bool {
        match i {
            0 => &mut self.digits,
            1 => &mut self.non_digits,
            2 => &mut self.spaces,
            3 => &mut self.non_spaces,
            4 => &mut self.words,
            5 => &mut self.non_words,
            6 => &mut self.repetitions,
            7 => &mut self.ignore_case,
            8 => &mut self.capture,
            9 => &mut self.escape,
            10 => &mut self.surrogates,
            11 => &mut self.verbose,
            12 => &mut self.no_start,
            13 => &mut self.no_end,
            14 => &mut self.colour,
            _ => panic!("flag index"),
        }
    }
    pub fn flag(&self, i: usize) -> bool {
        let mut c = self.clone();
        *c.flag_mut(i)
    }
    /// Build from a bit mask over FLAG_NAMES (bit i = flag i).
    pub fn from_mask(mask: u32) -> Cfg {
        let mut c = Cfg::default();
        for i in 0..15 {
            if mask >> i & 1 == 1 {
                *c.flag_mut(i) = true;
            }
        }
        c
    }
    pub fn flag_count(&self) -> usize {
        (0..15).filter(|&i| self.flag(i)).count()
    }
    pub fn classes(&self) -> bool {
        self.digits || self.non_digits || self.spaces || self.non_spaces || self.words || self.non_words
    }
    /// Output is meant for the regex crate.
    pub fn regex_crate(&self) -> bool {
        !self.colour && !(self.escape && self.surrogates)
    }
    pub fn tag(&self) -> String {
        let mut t = String::new();
        for (b, n) in [
            (self.digits, "d"), (self.non_digits, "D"), (self.spaces, "s"), (self.non_spaces, "S"),
            (self.words, "w"), (self.non_words, "W"), (self.repetitions, "r"), (self.ignore_case, "i"),
            (self.capture, "g"), (self.escape, "e"), (self.surrogates, "u"), (self.verbose, "x"),
            (self.no_start, "^"), (self.no_end, "$"), (self.colour, "c"),
        ] {
            if b {
                t.push_str(n);
            }
        }
        if self.min_rep != 1 || self.min_len != 1 {
            t.push_str(&format!("[{},{}]", self.min_rep, self.min_len));
        }
        if t.is_empty() {
            t.push('-');
        }
        t
    }
    /// Canonical order of public builder calls.
    pub fn apply(&self, b: &mut RegExpBuilder) {
        if self.digits { b.with_conversion_of_digits(); }
        if self.non_digits { b.with_conversion_of_non_digits(); }
        if self.spaces { b.with_conversion_of_whitespace(); }
        if self.non_spaces { b.with_conversion_of_non_whitespace(); }
        if self.words { b.with_conversion_of_words(); }
        if self.non_words { b.with_conversion_of_non_words(); }
        if self.repetitions { b.with_conversion_of_repetitions(); }
        if self.ignore_case { b.with_case_insensitive_matching(); }
        if self.capture { b.with_capturing_groups(); }
        if self.escape { b.with_escaping_of_non_ascii_chars(self.surrogates); }
        if self.verbose { b.with_verbose_mode(); }
        if self.no_start { b.without_start_anchor(); }
        if self.no_end { b.without_end_anchor(); }
        if self.colour { b.with_syntax_highlighting(); }
        if self.min_rep != 1 { b.with_minimum_repetitions(self.min_rep); }
        if self.min_len != 1 { b.with_minimum_substring_length(self.min_len); }
    }
    /// Equivalent command line flags (long spellings).
    pub fn cli_args(&self) -> Vec<String> {
        let mut v: Vec<String> = vec![];
        for (b, n) in [
            (self.digits, "--digits"), (self.non_digits, "--non-digits"), (self.spaces, "--spaces"),
            (self.non_spaces, "--non-spaces"), (self.words, "--words"), (self.non_words, "--non-words"),
            (self.repetitions, "--repetitions"), (self.ignore_case, "--ignore-case"),
            (self.capture, "--capture-groups"), (self.escape, "--escape"),
            (self.escape && self.surrogates, "--with-surrogates"), (self.verbose, "--verbose"),
            (self.no_start, "--no-start-anchor"), (self.no_end, "--no-end-anchor"), (self.colour, "--colorize"),
        ] {
            if b {
                v.push(n.to_string());
            }
        }
        if self.min_rep != 1 {
            v.push("--min-repetitions".into());
            v.push(self.min_rep.to_string());
        }
        if self.min_len != 1 {
            v.push("--min-substring-length".into());
            v.push(self.min_len.to_string());
        }
        v
    }
}

/// One generated case: a test-case list, settings, and check-specific extra data
/// (history, channel, ...). This is also exactly what a replay file stores.
#[derive(Clone, Debug, Serialize, Deserialize)]
pub struct Case {
    pub tcs: Vec<String>,
    #[serde(default)]
    pub cfg: Cfg,
    #[serde(default)]
    pub extra: Value,
}

impl Case {
    pub fn new(tcs: Vec<String>, cfg: Cfg) -> Case {
        Case { tcs, cfg, extra: Value::Null }
    }
    pub fn to_json(&self) -> Value {
        serde_json::to_value(self).unwrap()
    }
    pub fn key(&self) -> u64 {
        use std::hash::{Hash, Hasher};
        let mut h = std::collections::hash_map::DefaultHasher::new();
        self.tcs.hash(&mut h);
        self.cfg.hash(&mut h);
        self.extra.to_string().hash(&mut h);
        h.finish()
    }
}

pub fn panic_message(e: Box<dyn std::any::Any + Send>) -> String {
    if let Some(s) = e.downcast_ref::<String>() {
        s.clone()
    } else if let Some(s) = e.downcast_ref::<&str>() {
        s.to_string()
    } else {
        "panic with non-string payload".into()
    }
}

/// Run `f`, turning a panic into `Err(message)`.
pub fn guarded<T>(f: impl FnOnce() -> T) -> Result<T, String> {
    catch_unwind(AssertUnwindSafe(f)).map_err(panic_message)
}

/// The real `RegExpBuilder::build()` from /repo's working tree. A panic is data.
pub fn build(tcs: &[String], cfg: &Cfg) -> Result<String, String> {
    guarded(|| {
        let mut b = RegExpBuilder::from(tcs);
        cfg.apply(&mut b);
        b.build()
    })
}

/// Snapshots recorded by the grex_verif hooks during one real `build()`.
#[derive(Clone, Debug, Default)]
pub struct Stages {
    pub test_cases: Vec<String>,
    pub clusters: Vec<Vec<Label>>,
    /// Trie recorded by the first (minimising) automaton construction.
    pub trie: Automaton,
    pub minimized: Automaton,
    /// Expressions in the order they were produced (1 normally, 2 if grex fell back to the trie).
    pub expressions: Vec<String>,
    pub tries_built: usize,
}

pub fn build_with_stages(tcs: &[String], cfg: &Cfg) -> Result<(String, Stages), String> {
    let (res, events) = grex::verif_hooks::capture(|| build(tcs, cfg));
    let pattern = res?;
    let mut st = Stages::default();
    for e in events {
        match e {
            Event::TestCases(t) => st.test_cases = t,
            Event::Clusters(c) => st.clusters = c,
            Event::Trie(a) => {
                if st.tries_built == 0 {
                    st.trie = a;
                }
                st.tries_built += 1;
            }
            Event::Minimized(a) => st.minimized = a,
            Event::Expression(s) => st.expressions.push(s),
        }
    }
    Ok((pattern, st))
}
