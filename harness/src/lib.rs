//! gv — property-based verification harness for pemistahl/grex.
//!   gv check <ID> <quick|thorough>     run one property check, write evidence, exit 0/1/2
//!   gv replay <file> [--strict]        re-run one saved case through its sub-check
//!   gv list                            list property ids

pub mod astx;
pub mod cfg;
pub mod checks;
pub mod fuzzdec;
pub mod gen;
pub mod known;
pub mod lang;
pub mod runner;
pub mod spec;

use runner::{Ctx, Stats, Tier};
use serde_json::{json, Value};

pub fn root() -> String {
    std::env::var("GV_ROOT").unwrap_or_else(|_| "/verif".to_string())
}

fn seed() -> u64 {
    std::env::var("VERIF_SEED")
        .ok()
        .and_then(|s| s.trim().parse::<i64>().ok().map(|v| v as u64).or_else(|| s.trim().parse::<u64>().ok()))
        .unwrap_or(0)
}

fn short_hash(s: &str) -> String {
    let mut h: u64 = 0xcbf29ce484222325;
    for b in s.bytes() {
        h ^= b as u64;
        h = h.wrapping_mul(0x100000001b3);
    }
    format!("{:012x}", h & 0xffff_ffff_ffff)
}

fn finish(ctx: Ctx, check: &checks::Check) -> i32 {
    let root = root();
    let mut exit = 0;
    // violations -> replay files
    let mut violation_lines = vec![];
    for f in &ctx.failures {
        let v = runner::replay_json(ctx.prop, f);
        let text = serde_json::to_string_pretty(&v).unwrap();
        let dir = format!("{}/replays/found", root);
        let _ = std::fs::create_dir_all(&dir);
        let path = format!("{}/{}-{}-{}.json", dir, ctx.prop, f.sub.replace(|c: char| !c.is_ascii_alphanumeric(), "_"), short_hash(&text));
        if let Err(e) = std::fs::write(&path, text) {
            eprintln!("gv: cannot write replay file {}: {}", path, e);
        }
        violation_lines.push(format!("VIOLATION property={} replay={}", ctx.prop, path));
        println!("--- violation in sub-check {}: {}", f.sub, f.message);
        println!("    case: {}", serde_json::to_string(&f.case.to_json()).unwrap());
        exit = 1;
    }
    // known findings
    for kf in known::listed_for(ctx.prop) {
        if let Some((n, ex)) = ctx.stats.known_hits.get(&kf.id) {
            println!(
                "KNOWN-FINDING: property={} {}: {} [hit {} times in this run, e.g. {}]",
                ctx.prop, kf.id, kf.what, n, ex
            );
        }
    }
    let inconclusive: u64 = ctx.stats.inconclusive.values().map(|v| v.0).sum();
    let oracle_bad = ctx.stats.inconclusive.keys().any(|k| k.contains("ORACLE-INCONSISTENCY"));
    if oracle_bad {
        println!("ORACLE-INCONSISTENCY: the symbolic comparator and the regex engine disagreed; see evidence 'inconclusive'");
        if exit == 0 {
            exit = 2;
        }
    }
    for e in &ctx.infra_errors {
        println!("INFRASTRUCTURE: {}", e);
        if exit == 0 {
            exit = 2;
        }
    }
    let distinct = ctx.stats.nontrivial.len() as u64;
    let wall = ctx.start.elapsed().as_secs_f64();
    let mut coverage = json!({
        "evaluations": ctx.stats.evaluations,
        "distinct_nontrivial": distinct,
        "rule": check.rule,
        "samples": ctx.stats.samples,
        "exhaustive": ctx.exhaustive_domain && ctx.failures.is_empty(),
        "exhaustive_universes": ctx.exhaustive,
        "subchecks": ctx.subchecks,
        "classes": ctx.stats.classes,
        "known_finding_hits": ctx.stats.known_hits.iter().map(|(k, v)| (k.clone(), json!({"count": v.0, "example": v.1}))).collect::<serde_json::Map<String, Value>>(),
        "inconclusive": inconclusive,
        "inconclusive_reasons": ctx.stats.inconclusive.iter().map(|(k, v)| (k.clone(), json!({"count": v.0, "example": v.1}))).collect::<serde_json::Map<String, Value>>(),
        "oracle_confirmations": ctx.stats.confirmations,
        "workers": runner::workers(),
    });
    for (k, v) in &ctx.extra {
        coverage[k] = v.clone();
    }
    let evidence = json!({
        "property_id": ctx.prop,
        "tier": ctx.tier.name(),
        "seed": ctx.seed as i64,
        "level": "exploration",
        "coverage": coverage,
        "assumptions": check.assumptions,
        "wall_s": (wall * 1000.0).round() / 1000.0,
        "violations": ctx.failures.len(),
    });
    let dir = format!("{}/evidence", root);
    let _ = std::fs::create_dir_all(&dir);
    let path = format!("{}/{}.json", dir, ctx.prop);
    if let Err(e) = std::fs::write(&path, serde_json::to_string_pretty(&evidence).unwrap() + "\n") {
        eprintln!("gv: cannot write evidence {}: {}", path, e);
        if exit == 0 {
            exit = 2;
        }
    }
    println!(
        "{} {} seed={} evaluations={} distinct_nontrivial={} known_hits={} inconclusive={} wall={:.1}s",
        ctx.prop,
        ctx.tier.name(),
        ctx.seed,
        ctx.stats.evaluations,
        distinct,
        ctx.stats.known_hits.values().map(|v| v.0).sum::<u64>(),
        inconclusive,
        wall
    );
    for l in violation_lines {
        println!("{}", l);
    }
    if exit == 0 && (ctx.stats.evaluations == 0 || distinct < 2) {
        println!("INFRASTRUCTURE: the run explored nothing non-trivial");
        exit = 2;
    }
    exit
}

pub fn main_entry() {
    std::panic::set_hook(Box::new(|_| {}));
    let args: Vec<String> = std::env::args().collect();
    known::load(&root());
    match args.get(1).map(|s| s.as_str()) {
        Some("list") => {
            for c in checks::all() {
                println!("{}", c.id);
            }
        }
        Some("check") => {
            let id = args.get(2).cloned().unwrap_or_default();
            let tier = match args.get(3).map(|s| s.as_str()) {
                Some("thorough") => Tier::Thorough,
                Some("quick") | None => Tier::Quick,
                Some(o) => {
                    eprintln!("gv: unknown tier {}", o);
                    std::process::exit(2);
                }
            };
            let check = match checks::all().into_iter().find(|c| c.id == id) {
                Some(c) => c,
                None => {
                    eprintln!("gv: unknown property {}", id);
                    std::process::exit(2);
                }
            };
            let mut ctx = Ctx::new(check.id, tier, seed());
            (check.run)(&mut ctx);
            std::process::exit(finish(ctx, &check));
        }
        Some("fuzz-replay") => {
            // gv fuzz-replay <target> <artifact> : re-judge a libFuzzer artifact, write a replay JSON
            let target = args.get(2).cloned().unwrap_or_default();
            let data = std::fs::read(args.get(3).cloned().unwrap_or_default()).unwrap_or_default();
            let case = fuzzdec::decode(&data);
            let mut st = Stats::default();
            let only = std::env::var("GV_FUZZ_PROPS").ok();
            let r = checks::fuzz_oracle(&target, &case, &mut st, only.as_deref());
            println!("decoded case: {}", serde_json::to_string(&case.to_json()).unwrap());
            match r {
                Ok(()) => println!("fuzz-replay: all oracles of {} hold on this input", target),
                Err((prop, sub, m)) => {
                    let f = runner::Failure { sub, case, message: m.clone() };
                    let v = runner::replay_json(prop, &f);
                    let text = serde_json::to_string_pretty(&v).unwrap();
                    let dir = format!("{}/replays/found", root());
                    let _ = std::fs::create_dir_all(&dir);
                    let path = format!("{}/{}-fuzz-{}.json", dir, prop, short_hash(&text));
                    let _ = std::fs::write(&path, text);
                    println!("fuzz-replay: {}", m);
                    println!("VIOLATION property={} replay={}", prop, path);
                    std::process::exit(1);
                }
            }
        }
        Some("fuzz-bench") => {
            // gv fuzz-bench <target> <dir>: time the oracles over a corpus directory
            let target = args.get(2).cloned().unwrap_or_default();
            let mut times: Vec<(f64, String, String)> = vec![];
            for e in std::fs::read_dir(&args[3]).unwrap().flatten() {
                let data = std::fs::read(e.path()).unwrap_or_default();
                let case = fuzzdec::decode(&data);
                let mut st = Stats::default();
                let t0 = std::time::Instant::now();
                let r = checks::fuzz_oracle(&target, &case, &mut st, None);
                let dt = t0.elapsed().as_secs_f64();
                times.push((dt, format!("{} {:?}", case.cfg.tag(), case.tcs), format!("{:?}", r.err().map(|e| (e.0, e.2)))));
            }
            // per-check cost profile
            let mut per: std::collections::BTreeMap<&str, f64> = Default::default();
            for e in std::fs::read_dir(&args[3]).unwrap().flatten() {
                let data = std::fs::read(e.path()).unwrap_or_default();
                let case = fuzzdec::decode(&data);
                for c in checks::all() {
                    if ["C09", "C10", "C12", "C14", "C17", "C04"].contains(&c.id) {
                        continue;
                    }
                    let mut st = Stats::default();
                    let t0 = std::time::Instant::now();
                    let _ = (c.case_fn)("fuzz", &case, &mut st);
                    *per.entry(c.id).or_default() += t0.elapsed().as_secs_f64();
                }
            }
            println!("per-check seconds: {:?}", per);
            times.sort_by(|a, b| b.0.partial_cmp(&a.0).unwrap());
            let total: f64 = times.iter().map(|t| t.0).sum();
            println!("files={} total={:.2}s mean={:.2}ms", times.len(), total, 1000.0 * total / times.len().max(1) as f64);
            for t in times.iter().take(8) {
                println!("{:.1}ms {} -> {}", t.0 * 1000.0, t.1.chars().take(160).collect::<String>(), t.2.chars().take(200).collect::<String>());
            }
        }
        Some("stages") => {
            // gv stages '<case json>' : print the hook snapshots of one build (triage helper)
            let case: cfg::Case = serde_json::from_str(&args[2]).expect("case json");
            match cfg::build_with_stages(&case.tcs, &case.cfg) {
                Ok((p, st)) => {
                    println!("pattern: {:?}", p);
                    println!("test_cases: {:?}", st.test_cases);
                    println!("clusters: {:?}", st.clusters);
                    println!("trie: {:?}", st.trie);
                    println!("minimized: {:?}", st.minimized);
                    println!("expressions: {:?} (tries built: {})", st.expressions, st.tries_built);
                }
                Err(m) => println!("panic: {}", m),
            }
        }
        Some("find") => {
            let re = regex::Regex::new(&args[2]).unwrap();
            for t in &args[3..] {
                println!("{:?} find {:?} -> {:?}; is_match={}", args[2], t, re.find(t).map(|m| (m.start(), m.end())), re.is_match(t));
            }
        }
        Some("build-json") => std::process::exit(checks::c10::build_json_main()),
        Some("big") => {
            let kind = args.get(2).cloned().unwrap_or_default();
            let n: usize = args.get(3).and_then(|s| s.parse().ok()).unwrap_or(10);
            std::process::exit(checks::c07::big_main(&kind, n));
        }
        Some("replay") => {
            let path = args.get(2).cloned().unwrap_or_default();
            let text = std::fs::read_to_string(&path).unwrap_or_else(|e| {
                eprintln!("gv: cannot read {}: {}", path, e);
                std::process::exit(2);
            });
            let v: Value = serde_json::from_str(&text).unwrap_or_else(|e| {
                eprintln!("gv: cannot parse {}: {}", path, e);
                std::process::exit(2);
            });
            let prop = v["property"].as_str().unwrap_or("").to_string();
            let sub = v["sub"].as_str().unwrap_or("").to_string();
            let case: cfg::Case = serde_json::from_value(v["case"].clone()).unwrap_or_else(|e| {
                eprintln!("gv: bad case: {}", e);
                std::process::exit(2);
            });
            let check = checks::all().into_iter().find(|c| c.id == prop).unwrap_or_else(|| {
                eprintln!("gv: unknown property {}", prop);
                std::process::exit(2);
            });
            let mut st = Stats::default();
            match (check.case_fn)(&sub, &case, &mut st) {
                Ok(()) => {
                    for (id, (n, _)) in &st.known_hits {
                        println!("KNOWN-FINDING: property={} {} (hit {}x)", prop, id, n);
                    }
                    for (why, _) in &st.inconclusive {
                        println!("INCONCLUSIVE: {}", why);
                    }
                    println!("replay: property {} sub-check {} holds on this case", prop, sub);
                }
                Err(m) => {
                    println!("replay: {}", m);
                    println!("VIOLATION property={} replay={}", prop, path);
                    std::process::exit(1);
                }
            }
        }
        _ => {
            eprintln!("usage: gv check <ID> <quick|thorough> | gv replay <file> | gv list");
            std::process::exit(2);
        }
    }
}
