//! Native model of the JS boundary used by src/wasm.rs: JsValue is a plain enum.
#[derive(Clone, Debug, PartialEq)]
pub enum JsValue { Undefined, Null, Bool(bool), Number(f64), Str(String) }
impl JsValue { pub fn as_string(&self) -> Option<String> { if let JsValue::Str(s) = self { Some(s.clone()) } else { None } } }
impl From<&str> for JsValue { fn from(s: &str) -> Self { JsValue::Str(s.to_string()) } }
impl From<String> for JsValue { fn from(s: String) -> Self { JsValue::Str(s) } }
pub mod prelude { pub use crate::JsValue; pub use wasm_bindgen_macro::wasm_bindgen; }
