use proc_macro::TokenStream;
#[proc_macro_attribute]
pub fn wasm_bindgen(_attr: TokenStream, item: TokenStream) -> TokenStream { item }
