#![no_main]
//! libFuzzer target: bytes -> (settings, test cases) -> the same oracles as the gv checks.
//! Listed known findings are tolerated by the oracles themselves (stage-signature classifier),
//! so a campaign is not stopped by them; anything else aborts with the violated property.
use libfuzzer_sys::fuzz_target;
use std::sync::Once;

static INIT: Once = Once::new();
static ONLY: std::sync::OnceLock<Option<String>> = std::sync::OnceLock::new();

fuzz_target!(|data: &[u8]| {
    INIT.call_once(|| {
        gv::known::load(&gv::root());
        std::panic::set_hook(Box::new(|info| {
            // only the harness' own verdict panics are printed; grex panics are data
            let msg = info.payload().downcast_ref::<String>().cloned().unwrap_or_default();
            if msg.starts_with("GV-VIOLATION") {
                eprintln!("{}", msg);
            }
        }));
    });
    let case = gv::fuzzdec::decode(data);
    let mut st = gv::runner::Stats::default();
    if let Err((prop, _sub, m)) = gv::checks::fuzz_oracle("fuzz_build", &case, &mut st, ONLY.get_or_init(|| std::env::var("GV_FUZZ_PROPS").ok()).as_deref()) {
        if !m.starts_with("INFRA") {
            panic!("GV-VIOLATION property={} {}", prop, m);
        }
    }
});
