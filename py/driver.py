#!/usr/bin/env python3
"""Dumb executor for C14: imports the freshly built grex extension from the directory given as
argv[1], reads one JSON case per line on stdin, applies the calls, answers one JSON line."""
import sys, json, re
sys.path.insert(0, sys.argv[1])
import grex  # noqa: E402

def run(case):
    try:
        if case.get("ctor") == "from_test_cases":
            b = grex.RegExpBuilder.from_test_cases(case["tcs"])
        else:
            b = grex.RegExpBuilder(case["tcs"])
        for call in case.get("calls", []):
            if call[0] == "build":
                b.build()  # intermediate build: its result is not used, only its side effects matter
                continue
            r = getattr(b, call[0])(*call[1:])
            if case.get("chain", True):
                b = r
        pattern = b.build()
    except BaseException as e:  # pyo3 panics surface as pyo3_runtime.PanicException (BaseException)
        return {"error_type": type(e).__name__, "error": str(e)}
    out = {"pattern": pattern}
    try:
        c = re.compile(pattern)
        out["compiled"] = True
        out["fullmatch"] = [c.fullmatch(t) is not None for t in case["tcs"]]
    except Exception as e:
        out["compiled"] = False
        out["compile_error"] = "%s: %s" % (type(e).__name__, e)
    return out

for line in sys.stdin:
    line = line.strip()
    if not line:
        continue
    try:
        res = run(json.loads(line))
    except Exception as e:
        res = {"driver_error": "%s: %s" % (type(e).__name__, e)}
    sys.stdout.write(json.dumps(res) + "\n")
    sys.stdout.flush()
