#!/bin/bash
# try_seeded.sh <patch.diff> <tier> <ID...> : applies a seeded change to /repo, runs the given checks,
# and ALWAYS restores /repo afterwards. Prints one line per check: <ID> caught|missed|infra.
set -u
PATCH="$(readlink -f "$1")"; tier="$2"; shift 2
ROOT="$(cd "$(dirname "${BASH_SOURCE[0]}")/.." && pwd)"
if [ -n "$(git -C /repo status --porcelain --untracked-files=no)" ]; then echo "refusing: /repo has uncommitted changes"; exit 2; fi
restore() { git -C /repo checkout -q -- . ; git -C "$ROOT" checkout -q -- evidence 2>/dev/null; }
trap restore EXIT
git -C /repo apply "$PATCH" || { echo "patch does not apply"; exit 2; }
for id in "$@"; do
  out="$("$ROOT/check" "$id" "$tier" 2>&1)"; rc=$?
  case $rc in
    1) echo "$id caught: $(echo "$out" | grep -m1 -- '--- violation' | cut -c1-260)";;
    0) echo "$id missed";;
    *) echo "$id infra(rc=$rc): $(echo "$out" | grep -m1 -E 'INFRA|ORACLE|error' | cut -c1-200)";;
  esac
done
