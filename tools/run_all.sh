#!/bin/bash
# Runs every check's tier ($1 = quick|thorough) once; prints exit code and time per check.
ROOT="$(cd "$(dirname "${BASH_SOURCE[0]}")/.." && pwd)"
tier="${1:-quick}"; shift
ids="${@:-C01 C02 C03 C04 C05 C06 C07 C08 C09 C10 C11 C12 C13 C14 C15 C16 C17}"
rc_all=0
for id in $ids; do
  t0=$(date +%s.%N)
  out="$("$ROOT/check" "$id" "$tier" 2>&1)"; rc=$?
  t1=$(date +%s.%N)
  printf "%s %s exit=%d %.1fs | %s\n" "$id" "$tier" "$rc" "$(echo "$t1 - $t0" | bc)" "$(echo "$out" | grep -E "^$id $tier" | cut -c1-160)"
  if [ $rc -ne 0 ]; then rc_all=1; echo "$out" | grep -E "VIOLATION|INFRA|ORACLE|---" | cut -c1-400; fi
done
exit $rc_all
