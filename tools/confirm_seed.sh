#!/bin/bash
# confirm_seed.sh <dir with patch.diff + demo.rs>
# Confirms in a scratch worktree of /repo (never in /repo itself) that the change compiles, passes the
# unedited suite, and that the demonstration fails with it and passes without it.
# Prints: CONFIRMED suite=pass demo_with=fail demo_without=pass   (or what went wrong); exit 0 iff confirmed.
set -u
DIR="$(cd "$1" && pwd)"
WT=/tmp/confirm-wt
export CARGO_TARGET_DIR=/tmp/confirm-target CARGO_NET_OFFLINE=true RUST_BACKTRACE=0
unset RUSTFLAGS
if [ ! -d "$WT" ]; then git -C /repo worktree add -q --detach "$WT" HEAD || exit 2; fi
cd "$WT" || exit 2
git checkout -q --detach "$(git -C /repo rev-parse HEAD)" 2>/dev/null
git checkout -q -- . ; rm -f tests/demo*.rs tests/*.proptest-regressions
if ! git apply --check "$DIR/patch.diff" 2>/dev/null; then echo "NOT-CONFIRMED patch does not apply to current HEAD"; exit 1; fi
git apply "$DIR/patch.diff"
suite=fail
if cargo nextest run --workspace --no-fail-fast --test-threads 8 --offline >/tmp/confirm-suite.log 2>&1; then suite=pass; fi
rm -f tests/*.proptest-regressions
demo_with=unknown; demo_without=unknown
if [ -f "$DIR/demo.rs" ]; then
  cp "$DIR/demo.rs" tests/demo.rs
  if cargo test --test demo --offline >/tmp/confirm-demo-with.log 2>&1; then demo_with=pass; else demo_with=fail; fi
  git checkout -q -- src
  if cargo test --test demo --offline >/tmp/confirm-demo-without.log 2>&1; then demo_without=pass; else demo_without=fail; fi
  rm -f tests/demo.rs
fi
git checkout -q -- . ; rm -f tests/*.proptest-regressions
echo "suite=$suite demo_with=$demo_with demo_without=$demo_without ($(grep -E 'Summary' /tmp/confirm-suite.log | tail -1 | sed 's/^ *//'))"
if [ "$suite" = pass ] && [ "$demo_with" = fail ] && [ "$demo_without" = pass ]; then echo CONFIRMED; exit 0; fi
echo NOT-CONFIRMED; exit 1
