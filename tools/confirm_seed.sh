#!/bin/bash
# confirm_seed.sh <dir with patch.diff + demo.rs>
# Confirms in a scratch worktree of /repo (never in /repo itself) that the change compiles, passes the
# unedited suite, and that the demonstration fails with it and passes without it.
# Prints: CONFIRMED suite=pass demo_with=fail demo_without=pass   (or what went wrong); exit 0 iff confirmed.
set -u
DIR="$(cd "$1" && pwd)"
ROOTV="$(cd "$(dirname "${BASH_SOURCE[0]}")/.." && pwd)"
WT=/tmp/confirm-wt
export CARGO_TARGET_DIR=/tmp/confirm-target CARGO_NET_OFFLINE=true RUST_BACKTRACE=0
unset RUSTFLAGS
if [ ! -d "$WT" ]; then git -C /repo worktree add -q --detach "$WT" HEAD || exit 2; fi
cd "$WT" || exit 2
git checkout -q --detach "$(git -C /repo rev-parse HEAD)" 2>/dev/null
git checkout -q -- . ; rm -f tests/demo*.rs tests/*.proptest-regressions
if ! git apply --check "$DIR/patch.diff" 2>/dev/null; then echo "NOT-CONFIRMED patch does not apply to current HEAD"; exit 1; fi
git apply "$DIR/patch.diff"
suite=fail
if cargo nextest run --workspace --no-fail-fast --test-threads 8 --offline >/tmp/confirm-suite.log 2>&1; then suite=pass; fi
rm -f tests/*.proptest-regressions
demo_with=unknown; demo_without=unknown
PY=/root/.pyenv/versions/3.11.7/bin/python3.11
build_py() { # builds the python extension of the current worktree state into /tmp/confirm-pyext
  mkdir -p /tmp/confirm-pyext
  PYO3_PYTHON=$PY cargo build --release --offline --lib --no-default-features --features "python pyo3/extension-module" --target-dir /tmp/confirm-target/py >/tmp/confirm-pybuild.log 2>&1 || return 1
  cp -f /tmp/confirm-target/py/release/libgrex.so /tmp/confirm-pyext/grex.so
}
run_driver() { # native wasm-wrapper driver with the stand-in wasm-bindgen
  rm -rf /tmp/confirm-driver; mkdir -p /tmp/confirm-driver/src
  cat > /tmp/confirm-driver/Cargo.toml <<EOT
[package]
name = "driver"
version = "0.1.0"
edition = "2021"
[dependencies]
grex = { path = "$WT" }
wasm-bindgen = "=0.2.97"
[patch.crates-io]
wasm-bindgen = { path = "$ROOTV/harness/stubs/wasm-bindgen" }
wasm-bindgen-macro = { path = "$ROOTV/harness/stubs/wasm-bindgen-macro" }
[workspace]
EOT
  cp "$WT/Cargo.lock" /tmp/confirm-driver/; cp "$DIR/demo_main.rs" /tmp/confirm-driver/src/main.rs
  RUSTFLAGS="--cfg grex_verif" cargo run --offline --manifest-path /tmp/confirm-driver/Cargo.toml --target-dir /tmp/confirm-target/driver >"$1" 2>&1
}
if [ -f "$DIR/demo.py" ]; then
  if build_py && $PY "$DIR/demo.py" /tmp/confirm-pyext >/tmp/confirm-demo-with.log 2>&1; then demo_with=pass; else demo_with=fail; fi
  git checkout -q -- src
  if build_py && $PY "$DIR/demo.py" /tmp/confirm-pyext >/tmp/confirm-demo-without.log 2>&1; then demo_without=pass; else demo_without=fail; fi
elif [ -f "$DIR/demo_main.rs" ]; then
  if run_driver /tmp/confirm-demo-with.log; then demo_with=pass; else demo_with=fail; fi
  git checkout -q -- src
  if run_driver /tmp/confirm-demo-without.log; then demo_without=pass; else demo_without=fail; fi
elif [ -f "$DIR/demo.rs" ]; then
  cp "$DIR/demo.rs" tests/demo.rs
  if cargo test --test demo --offline >/tmp/confirm-demo-with.log 2>&1; then demo_with=pass; else demo_with=fail; fi
  git checkout -q -- src
  if cargo test --test demo --offline >/tmp/confirm-demo-without.log 2>&1; then demo_without=pass; else demo_without=fail; fi
  rm -f tests/demo.rs
fi
git checkout -q -- . ; rm -f tests/*.proptest-regressions
echo "suite=$suite demo_with=$demo_with demo_without=$demo_without ($(grep -E 'Summary' /tmp/confirm-suite.log | tail -1 | sed 's/^ *//'))"
if [ "$suite" = pass ] && [ "$demo_with" = fail ] && [ "$demo_without" = pass ]; then echo CONFIRMED; exit 0; fi
echo NOT-CONFIRMED; exit 1
