#!/usr/bin/env python3
"""Regenerates MANIFEST.json from the table below (single source of truth) and validates it."""
import json, subprocess, sys, os
ROOT = os.path.dirname(os.path.dirname(os.path.abspath(__file__)))

def repo_commits(prefix=None):
    out = subprocess.run(["git", "-C", "/repo", "log", "--format=%h %s"], capture_output=True, text=True).stdout
    return [l for l in out.splitlines()]

CHECKS = json.load(open(os.path.join(ROOT, "tools", "checks_table.json")))

def main():
    checks = []
    for pid, c in sorted(CHECKS.items()):
        checks.append({
            "property_id": pid,
            "quick_cmd": f"./check {pid} quick",
            "thorough_cmd": f"./check {pid} thorough",
            "evidence_file": f"/verif/evidence/{pid}.json",
            "replay_cmd_template": "./check replay {path}",
            "engine": "gv",
            "level_claimed": {"category": "exploration", "text": c["text"], "design_ref": "DESIGN.md §" + c["ref"]},
            "level_note": c["note"],
            "technique": c["tech"],
        })
    props = [json.loads(l)["id"] for l in open(os.path.join(ROOT, "properties.jsonl"))]
    na_reason = json.load(open(os.path.join(ROOT, "tools", "not_applicable.json")))
    na = []
    for p in props:
        if p not in CHECKS:
            na.append({"property_id": p, "reason": na_reason.get(p, "check not built yet in this revision of the framework; see DESIGN.md §5 for the planned procedure")})
    log = repo_commits()
    hooks = [l.split()[0] for l in log if "grex_verif" in l]
    m = {
        "version": 1,
        "setup_cmd": "./tools/setup.sh",
        "hooks": {
            "guard": "--cfg grex_verif",
            "enable": "RUSTFLAGS='--cfg grex_verif' via /verif/harness/.cargo/config.toml; the harness depends on grex = { path = \"/repo\" } and cargo rebuilds it from the working tree on every ./check",
            "baseline_off_cmd": "/verif/tools/baseline.sh",
            "source_commits": hooks,
            "add_only": True,
        },
        "engines": [
            {"name": "gv", "path": "/verif/harness", "serves_properties": sorted(CHECKS), "kind_free_text": "Rust binary (plus py/driver.py inside CPython for C14, the rebuilt grex CLI for C12): proptest-driven generators (seeded ChaCha, shrinking), bounded-exhaustive enumerators, symbolic regex-language comparator with engine confirmation, evidence/replay writer"},
        ],
        "checks": checks,
        "not_applicable": na,
        "notes": "Exit codes of every check: 0 held (KNOWN-FINDING lines for listed findings), 1 VIOLATION line, 2 infrastructure/inconclusive. Known findings: /verif/known_findings.json. Regression corpus: /verif/replays/regress.",
    }
    path = os.path.join(ROOT, "MANIFEST.json")
    json.dump(m, open(path, "w"), indent=1, ensure_ascii=False)
    open(path, "a").write("\n")
    try:
        import jsonschema
        jsonschema.validate(m, json.load(open("/root/.vp/MANIFEST.schema.json")))
        print("MANIFEST.json valid;", len(checks), "checks,", len(na), "not_applicable")
    except ImportError:
        print("jsonschema not available; written without validation")

if __name__ == "__main__":
    main()
