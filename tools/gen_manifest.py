#!/usr/bin/env python3
"""Regenerates MANIFEST.json from the table below (single source of truth) and validates it."""
import json, subprocess, sys, os
ROOT = os.path.dirname(os.path.dirname(os.path.abspath(__file__)))

def repo_commits(prefix=None):
    out = subprocess.run(["git", "-C", "/repo", "log", "--format=%h %s"], capture_output=True, text=True).stdout
    return [l for l in out.splitlines()]

CHECKS = {
 "C01": dict(tech="property-based testing: bounded-exhaustive subsets + derivation-program generator + all-scalar sweep; oracle = full match on the regex engine",
   text="Exploration. Every regex-crate configuration is reachable by the generator; all non-empty subsets of {a,b,c}^<=2 (and of {a,b}^<=3 in thorough) are enumerated exhaustively under 14 configurations, lifted to adversarial symbols, and every scalar value is swept as a one-character test case (thorough: all 1,112,064). Absence is not proven beyond those universes.",
   note="Trusts regex 1.10.6/regex-automata 0.4.7 for 'matches in full'. KF-empty is tolerated only when the hook snapshots show its exact stage signature.", ref="5/C01"),
 "C02": dict(tech="property-based testing: bounded-exhaustive subsets + generator; oracle = symbolic language equality (product of HIR-NFA and spec-NFA over minterms) with engine-confirmed witnesses",
   text="Exploration with a complete oracle per case: for each generated or enumerated input, 'no other string over all of Unicode matches' is decided on automata, not sampled, and every reported difference is confirmed on the real engine. Inputs are exhaustive only on the stated universes.",
   note="Trusts regex-syntax's HIR as the engine's reading of the pattern; comparator guarded by witness confirmation and near-miss sampling.", ref="5/C02"),
}

def main():
    checks = []
    for pid, c in sorted(CHECKS.items()):
        checks.append({
            "property_id": pid,
            "quick_cmd": f"./check {pid} quick",
            "thorough_cmd": f"./check {pid} thorough",
            "evidence_file": f"/verif/evidence/{pid}.json",
            "replay_cmd_template": "./check replay {path}",
            "engine": "gv",
            "level_claimed": {"category": "exploration", "text": c["text"], "design_ref": "DESIGN.md §" + c["ref"]},
            "level_note": c["note"],
            "technique": c["tech"],
        })
    props = [json.loads(l)["id"] for l in open(os.path.join(ROOT, "properties.jsonl"))]
    na_reason = json.load(open(os.path.join(ROOT, "tools", "not_applicable.json")))
    na = []
    for p in props:
        if p not in CHECKS:
            na.append({"property_id": p, "reason": na_reason.get(p, "check not built yet in this revision of the framework; see DESIGN.md §5 for the planned procedure")})
    log = repo_commits()
    hooks = [l.split()[0] for l in log if "verification hooks" in l or "grex_verif" in l]
    m = {
        "version": 1,
        "setup_cmd": "./tools/setup.sh",
        "hooks": {
            "guard": "--cfg grex_verif",
            "enable": "RUSTFLAGS='--cfg grex_verif' via /verif/harness/.cargo/config.toml; the harness depends on grex = { path = \"/repo\" } and cargo rebuilds it from the working tree on every ./check",
            "baseline_off_cmd": "/verif/tools/baseline.sh",
            "source_commits": hooks,
            "add_only": True,
        },
        "engines": [
            {"name": "gv", "path": "/verif/harness", "serves_properties": sorted(CHECKS), "kind_free_text": "Rust binary: proptest-driven generators (seeded ChaCha, shrinking), bounded-exhaustive enumerators, symbolic regex-language comparator with engine confirmation, evidence/replay writer"},
        ],
        "checks": checks,
        "not_applicable": na,
        "notes": "Exit codes of every check: 0 held (KNOWN-FINDING lines for listed findings), 1 VIOLATION line, 2 infrastructure/inconclusive. Known findings: /verif/known_findings.json. Regression corpus: /verif/replays/regress.",
    }
    path = os.path.join(ROOT, "MANIFEST.json")
    json.dump(m, open(path, "w"), indent=1, ensure_ascii=False)
    open(path, "a").write("\n")
    try:
        import jsonschema
        jsonschema.validate(m, json.load(open("/root/.vp/MANIFEST.schema.json")))
        print("MANIFEST.json valid;", len(checks), "checks,", len(na), "not_applicable")
    except ImportError:
        print("jsonschema not available; written without validation")

if __name__ == "__main__":
    main()
