#!/usr/bin/env python3
import json, sys, glob, jsonschema
schema = json.load(open("/root/.vp/EVIDENCE.schema.json"))
bad = 0
for p in sorted(glob.glob("/verif/evidence/*.json")):
    try:
        jsonschema.validate(json.load(open(p)), schema); print("ok ", p)
    except Exception as e:
        bad += 1; print("BAD", p, str(e)[:300])
sys.exit(1 if bad else 0)
