#!/bin/bash
# try_seeded_alt.sh <patch.diff> <tier> <ID...>
# Like try_seeded.sh but never touches /repo: the patch is applied to a scratch worktree
# (/tmp/alt-repo) and a scratch copy of the harness is built against it (/tmp/alt-harness,
# /tmp/alt-target). Evidence and replay files go to /tmp/alt-root. Only for sensitivity experiments
# while something else (e.g. a long thorough run) is using /repo. C12 and C14 build the CLI / Python extension from the scratch worktree too (C09 reads table boundaries from /repo, which only steers its sweep).
set -u
PATCH="$(readlink -f "$1")"; tier="$2"; shift 2
ROOT="$(cd "$(dirname "${BASH_SOURCE[0]}")/.." && pwd)"
ALT=/tmp/alt-repo
export CARGO_NET_OFFLINE=true RUST_BACKTRACE=0
if [ ! -d "$ALT" ]; then git -C /repo worktree add -q --detach "$ALT" HEAD || exit 2; fi
git -C "$ALT" checkout -q --detach "$(git -C /repo rev-parse HEAD)"; git -C "$ALT" checkout -q -- .
git -C "$ALT" apply "$PATCH" || { echo "patch does not apply"; exit 2; }
mkdir -p /tmp/alt-harness /tmp/alt-root/replays
rsync -a --delete --exclude target "$ROOT/harness/" /tmp/alt-harness/
sed -i "s#grex = { path = \"/repo\" }#grex = { path = \"$ALT\" }#" /tmp/alt-harness/Cargo.toml
cp "$ROOT/known_findings.json" /tmp/alt-root/; rsync -a --delete "$ROOT/replays/regress" /tmp/alt-root/replays/
if ! (cd /tmp/alt-harness && cargo build --release --offline --target-dir /tmp/alt-target >/tmp/alt-build.log 2>&1); then echo "alt build failed"; tail -20 /tmp/alt-build.log; exit 2; fi
mkdir -p /tmp/alt-root/py; cp -f "$ROOT/py/driver.py" /tmp/alt-root/py/
for id in "$@"; do
  case "$id" in
    C12)
      (cd "$ALT" && env -u RUSTFLAGS cargo build --release --offline --bin grex --target-dir /tmp/alt-target/cli >/tmp/alt-build-cli.log 2>&1) || { echo "C12 infra: alt CLI build failed"; continue; }
      export GV_GREX_BIN=/tmp/alt-target/cli/release/grex ;;
    C14)
      PY=/root/.pyenv/versions/3.11.7/bin/python3.11
      (cd "$ALT" && env -u RUSTFLAGS PYO3_PYTHON=$PY cargo build --release --offline --lib --no-default-features --features "python pyo3/extension-module" --target-dir /tmp/alt-target/py >/tmp/alt-build-py.log 2>&1) || { echo "C14 infra: alt python build failed"; continue; }
      cp -f /tmp/alt-target/py/release/libgrex.so /tmp/alt-target/py/grex.so
      export GV_PYTHON=$PY GV_PY_DIR=/tmp/alt-target/py ;;
  esac
  out="$(GV_ROOT=/tmp/alt-root GV_SKIP_REGRESS=1 /tmp/alt-target/release/gv check "$id" "$tier" 2>&1)"; rc=$?
  case $rc in
    1) echo "$id caught: $(echo "$out" | grep -m1 -- '--- violation' | cut -c1-260)";;
    0) echo "$id missed";;
    *) echo "$id infra(rc=$rc): $(echo "$out" | grep -m1 -E 'INFRA|ORACLE|error' | cut -c1-200)";;
  esac
done
git -C "$ALT" checkout -q -- .
