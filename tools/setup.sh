#!/bin/bash
# Run once after a fresh restore, offline: builds the harness (and grex with hooks) from disk.
ROOT="$(cd "$(dirname "${BASH_SOURCE[0]}")/.." && pwd)"
export CARGO_NET_OFFLINE=true RUST_BACKTRACE=0
unset RUSTFLAGS CARGO_ENCODED_RUSTFLAGS
set -e
cd "$ROOT/harness"
cargo build --release --offline --target-dir "$ROOT/.target" 2>&1 | tail -3
# artefacts of C12 (CLI) and C14 (Python extension) are prebuilt here so that the checks only
# pay for an incremental rebuild; ./check rebuilds them from the working tree anyway
(cd /repo && cargo build --release --offline --bin grex --target-dir "$ROOT/.target/cli" 2>&1 | tail -1) || true
PY=/root/.pyenv/versions/3.11.7/bin/python3.11; [ -x "$PY" ] || PY="$(command -v python3.11 || command -v python3)"
(cd /repo && PYO3_PYTHON="$PY" cargo build --release --offline --lib --no-default-features --features "python pyo3/extension-module" --target-dir "$ROOT/.target/py" 2>&1 | tail -1) || true
mkdir -p "$ROOT/evidence" "$ROOT/replays/found"
echo "setup done"
