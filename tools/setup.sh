#!/bin/bash
# Run once after a fresh restore, offline: builds the harness (and grex with hooks) from disk.
ROOT="$(cd "$(dirname "${BASH_SOURCE[0]}")/.." && pwd)"
export CARGO_NET_OFFLINE=true RUST_BACKTRACE=0
unset RUSTFLAGS CARGO_ENCODED_RUSTFLAGS
set -e
cd "$ROOT/harness"
cargo build --release --offline --target-dir "$ROOT/.target" 2>&1 | tail -3
mkdir -p "$ROOT/evidence" "$ROOT/replays/found"
echo "setup done"
