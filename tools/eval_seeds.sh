#!/bin/bash
# eval_seeds.sh <tier> <seed dirs...>: for each seeded change run all 17 checks against it, write <dir>/detect.<tier>.txt
ROOT="$(cd "$(dirname "${BASH_SOURCE[0]}")/.." && pwd)"
tier="$1"; shift
for d in "$@"; do
  echo "=== $d"
  "$ROOT/tools/try_seeded.sh" "$d/patch.diff" "$tier" C01 C02 C03 C04 C05 C06 C07 C08 C09 C10 C11 C12 C13 C14 C15 C16 C17 | tee "$d/detect.$tier.txt"
done
