#!/bin/bash
# Runs the repository's own test suite with the verification guard OFF.
# The repo's `-i` proptests can leave a git-ignored regressions file behind which would make
# every later run fail; remove it before and after.
set -u
export CARGO_NET_OFFLINE=true RUST_BACKTRACE=0
unset RUSTFLAGS
cd /repo || exit 2
rm -f tests/*.proptest-regressions
if cargo nextest --version >/dev/null 2>&1; then
  cargo nextest run --workspace --no-fail-fast --test-threads 8 --offline "$@"
  rc=$?
else
  cargo test --workspace --no-fail-fast --offline "$@"
  rc=$?
fi
rm -f tests/*.proptest-regressions
exit $rc
